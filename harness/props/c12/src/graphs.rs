//! Part (b): the deadlock detector against an independent cycle oracle.
//!
//!  * `digraphs`  every digraph on 2..=5 transactions (2^20 on 5 nodes), exhaustively, each built through
//!                one of four add/remove construction modes, under each victim policy in rotation.
//!  * `graphops`  random histories of add_wait / remove_wait / remove_transaction on 3..=8 transactions
//!                (random, planted ring + DAG noise, per-transaction edge limit), checked after every step.

use crate::dg::{check_cycle_walk, check_detect_cycles, Dg, IdMap};
use nv_engine::{CaseCtx, CustomPart, Fail, Findings, PartStats, RunCfg, Tier, Violation};
use proptest::prelude::*;
use serde::{Deserialize, Serialize};
use std::collections::BTreeSet;
use std::sync::Mutex;
use tensor_chain::deadlock::{DeadlockDetector, DeadlockDetectorConfig, VictimSelectionPolicy, WaitForGraph};

pub fn policy_of(p: u8) -> VictimSelectionPolicy {
    match p % 4 {
        0 => VictimSelectionPolicy::Youngest,
        1 => VictimSelectionPolicy::Oldest,
        2 => VictimSelectionPolicy::LowestPriority,
        _ => VictimSelectionPolicy::MostLocks,
    }
}

/// Deterministic "lock count" used for the MostLocks policy.
fn lock_count_of(tx: u64) -> usize {
    ((tx * 7 + 3) % 5) as usize
}

pub fn make_detector(policy: u8, with_lock_fn: bool, max_edges: usize) -> DeadlockDetector {
    let cfg = DeadlockDetectorConfig::default().with_policy(policy_of(policy)).with_max_edges_per_tx(max_edges);
    let mut d = DeadlockDetector::new(cfg);
    if with_lock_fn {
        d.set_lock_count_fn(lock_count_of);
    }
    d
}

/// Read the recorded relations back through the public accessors and compare with the model, both directions.
pub fn check_edges(g: &Dg, ids: &IdMap, wg: &WaitForGraph, ctx: &mut CaseCtx) -> Result<(), Fail> {
    for (i, id) in ids.ids.iter().enumerate() {
        let wf: BTreeSet<u64> = wg.waiting_for(*id).into_iter().collect();
        let want: BTreeSet<u64> = (0..g.n).filter(|j| g.has(i, *j)).map(|j| ids.ids[j]).collect();
        if wf != want {
            ctx.fail("waiting-for-mismatch", format!("waiting_for({id}) = {wf:?}, recorded by the history: {want:?}"))?;
        }
        let wo: BTreeSet<u64> = wg.waiting_on(*id).into_iter().collect();
        let p = g.preds(i);
        let want: BTreeSet<u64> = (0..g.n).filter(|j| p & (1 << j) != 0).map(|j| ids.ids[j]).collect();
        if wo != want {
            ctx.fail("waiting-on-mismatch", format!("waiting_on({id}) = {wo:?}, recorded by the history: {want:?}"))?;
        }
    }
    if wg.edge_count() != g.edge_count() {
        ctx.fail("edge-count-mismatch", format!("edge_count() = {}, recorded {}", wg.edge_count(), g.edge_count()))?;
    }
    Ok(())
}

/// All cycle-related expectations of the property on the current graph.
pub fn check_detection(g: &Dg, ids: &IdMap, det: &DeadlockDetector, policy: u8, with_lock_fn: bool, ctx: &mut CaseCtx) -> Result<(), Fail> {
    let wg = det.graph();
    let cycles = wg.detect_cycles();
    check_detect_cycles(g, ids, &cycles, ctx)?;
    let reach = g.closure();
    // would_create_cycle(waiter, holder) <=> holder reaches waiter (or waiter == holder)
    for a in 0..g.n {
        for b in 0..g.n {
            let want = a == b || reach[b] & (1 << a) != 0;
            let got = wg.would_create_cycle(ids.ids[a], ids.ids[b]);
            if got != want {
                let sig = if got { "would-create-cycle-false-positive" } else { "would-create-cycle-false-negative" };
                ctx.fail(
                    sig,
                    format!(
                        "would_create_cycle({}, {}) = {got} but a path {} ->* {} {} in the recorded edges; adj={:?} ids={:?}",
                        ids.ids[a],
                        ids.ids[b],
                        ids.ids[b],
                        ids.ids[a],
                        if want { "exists" } else { "does not exist" },
                        g.adj,
                        ids.ids
                    ),
                )?;
            }
        }
    }
    let infos = det.detect();
    let cyclic = g.cyclic();
    if cyclic && infos.is_empty() {
        ctx.fail("detect-missed-deadlock", format!("recorded edges contain a cycle but detect() is empty; adj={:?} ids={:?}", g.adj, ids.ids))?;
    }
    if !cyclic && !infos.is_empty() {
        ctx.fail("detect-false-deadlock", format!("recorded edges are acyclic but detect() reports {:?}", infos.iter().map(|i| i.cycle.clone()).collect::<Vec<_>>()))?;
        return Ok(());
    }
    for info in &infos {
        check_cycle_walk(g, ids, &info.cycle, ctx, "detect")?;
        if !info.cycle.contains(&info.victim_tx_id) {
            ctx.fail("victim-outside-cycle", format!("detect() names victim {} for cycle {:?}", info.victim_tx_id, info.cycle))?;
        }
        // documented policies that do not depend on the wall clock
        match policy_of(policy) {
            VictimSelectionPolicy::LowestPriority => {
                let best = info.cycle.iter().map(|t| wg.get_priority(*t).unwrap_or(0)).max().unwrap_or(0);
                if wg.get_priority(info.victim_tx_id).unwrap_or(0) != best {
                    ctx.fail("victim-not-lowest-priority", format!("policy LowestPriority: victim {} in {:?} does not carry the highest priority value {best}", info.victim_tx_id, info.cycle))?;
                }
            },
            VictimSelectionPolicy::MostLocks if with_lock_fn => {
                let best = info.cycle.iter().map(|t| lock_count_of(*t)).max().unwrap_or(0);
                if lock_count_of(info.victim_tx_id) != best {
                    ctx.fail("victim-not-most-locks", format!("policy MostLocks: victim {} in {:?} does not hold the most locks ({best})", info.victim_tx_id, info.cycle))?;
                }
            },
            _ => {},
        }
    }
    Ok(())
}

/// Abort the named victims until detect() is silent; the remaining recorded edges must be acyclic and every
/// round must make progress (checked through the equivalence in `check_detection` on each sub-graph).
pub fn resolve_by_victims(g: &mut Dg, ids: &IdMap, det: &DeadlockDetector, policy: u8, with_lock_fn: bool, ctx: &mut CaseCtx) -> Result<usize, Fail> {
    let mut rounds = 0;
    loop {
        let infos = det.detect();
        if infos.is_empty() {
            break;
        }
        rounds += 1;
        if rounds > g.n + 1 {
            ctx.fail("victim-abort-no-progress", "aborting the named victims does not clear the deadlocks")?;
            break;
        }
        for info in &infos {
            det.graph().remove_transaction(info.victim_tx_id);
            if let Some(i) = ids.index.get(&info.victim_tx_id) {
                g.remove_node(*i);
            }
        }
        check_edges(g, ids, det.graph(), ctx)?;
        check_detection(g, ids, det, policy, with_lock_fn, ctx)?;
    }
    if g.cyclic() {
        ctx.fail("detect-missed-deadlock", format!("detect() is silent but recorded edges still contain a cycle; adj={:?}", g.adj))?;
    }
    Ok(rounds)
}

// ------------------------------------------------------------------ exhaustive small digraphs

#[derive(Clone, Debug, Serialize, Deserialize, PartialEq, Eq, PartialOrd, Ord)]
pub struct GraphCase {
    pub n: u8,
    pub mask: u32,
    /// construction mode 0..4
    pub mode: u8,
    pub policy: u8,
}

fn edge_list(n: usize) -> Vec<(usize, usize)> {
    let mut v = Vec::new();
    for i in 0..n {
        for j in 0..n {
            if i != j {
                v.push((i, j));
            }
        }
    }
    v
}

fn node_id(i: usize) -> u64 {
    // spread ids so that hash-map placement differs between nodes
    1000 + (i as u64) * 7919
}

pub fn eval_graph(c: &GraphCase, ctx: &mut CaseCtx) -> Result<(bool, bool, usize, usize), Fail> {
    let n = c.n as usize;
    let edges = edge_list(n);
    let present: Vec<(usize, usize)> = edges.iter().enumerate().filter(|(e, _)| c.mask & (1 << e) != 0).map(|(_, p)| *p).collect();
    let mut g = Dg::new(n);
    for (a, b) in &present {
        g.add(*a, *b);
    }
    let with_fn = c.policy % 8 >= 4;
    let det = make_detector(c.policy, with_fn, 50);
    let wg = det.graph();
    let ids = IdMap::new((0..n).map(node_id).collect());
    match c.mode % 4 {
        0 => {
            for (a, b) in &present {
                wg.add_wait(ids.ids[*a], ids.ids[*b], Some((*a as u32 * 3 + 1) % 4));
            }
        },
        1 => {
            for (a, b) in present.iter().rev() {
                wg.add_wait(ids.ids[*a], ids.ids[*b], Some((*b as u32 * 5 + 2) % 4));
            }
        },
        2 => {
            // complete graph first, then take the absent edges away one by one
            for (a, b) in &edges {
                wg.add_wait(ids.ids[*a], ids.ids[*b], Some(*a as u32 % 3));
            }
            for (e, (a, b)) in edges.iter().enumerate() {
                if c.mask & (1 << e) == 0 {
                    wg.remove_wait(ids.ids[*a], ids.ids[*b]);
                }
            }
        },
        _ => {
            // an extra transaction tangled with everybody, then removed as a whole
            let extra = 999_983u64;
            for (k, (a, b)) in present.iter().enumerate() {
                if k % 2 == 0 {
                    wg.add_wait(extra, ids.ids[*a], None);
                }
                wg.add_wait(ids.ids[*a], ids.ids[*b], None);
                if k % 3 == 0 {
                    wg.add_wait(ids.ids[*b], extra, Some(1));
                }
            }
            wg.remove_transaction(extra);
            if !wg.waiting_for(extra).is_empty() || !wg.waiting_on(extra).is_empty() {
                ctx.fail("removed-tx-still-in-graph", "remove_transaction left edges of the removed transaction")?;
            }
        },
    }
    check_edges(&g, &ids, wg, ctx)?;
    check_detection(&g, &ids, &det, c.policy, with_fn, ctx)?;
    let cyclic = g.cyclic();
    let nontrivial = cyclic && g.nontrivial();
    let mut g2 = g.clone();
    let rounds = if cyclic { resolve_by_victims(&mut g2, &ids, &det, c.policy, with_fn, ctx)? } else { 0 };
    Ok((cyclic, nontrivial, rounds, g.cyclic_sccs()))
}

fn case_for(n: u8, mask: u32) -> GraphCase {
    // mode and policy rotate deterministically with the graph number
    let h = nv_engine::mix(u64::from(mask) ^ (u64::from(n) << 40));
    GraphCase { n, mask, mode: (h & 3) as u8, policy: ((h >> 2) & 7) as u8 }
}

/// Greedy edge removal keeping the same failure signature.
fn shrink_graph(c: &GraphCase, sig: &str, findings: &Findings) -> GraphCase {
    let mut cur = c.clone();
    loop {
        let mut improved = false;
        for e in 0..32 {
            if cur.mask & (1 << e) == 0 {
                continue;
            }
            let cand = GraphCase { mask: cur.mask & !(1 << e), ..cur.clone() };
            let mut ctx = CaseCtx::new(findings, false);
            let r = std::panic::catch_unwind(std::panic::AssertUnwindSafe(|| eval_graph(&cand, &mut ctx)));
            if let Ok(Err(f)) = r {
                if f.sig == sig {
                    cur = cand;
                    improved = true;
                }
            }
        }
        if !improved {
            return cur;
        }
    }
}

pub fn digraphs_part() -> CustomPart {
    CustomPart {
        name: "digraphs",
        run: Box::new(|cfg: &RunCfg, findings: &Findings, stats: &mut PartStats| {
            // oracle self test: fast closure == fixpoint closure on every graph with <= 4 nodes
            for n in 1..=4usize {
                let m = n * (n - 1);
                for mask in 0u32..(1u32 << m) {
                    let mut g = Dg::new(n);
                    for (e, (a, b)) in edge_list(n).iter().enumerate() {
                        if mask & (1 << e) != 0 {
                            g.add(*a, *b);
                        }
                    }
                    assert_eq!(g.closure(), g.closure_slow(), "oracle self test");
                }
            }
            let jobs = cfg.jobs.max(1);
            // work list: (n, mask range); all n in 2..=5; NV_SCALE < 100 samples the 5-node graphs by stride
            let stride5: u32 = if cfg.scale_pct >= 100 { 1 } else { (100 / cfg.scale_pct.max(1)) as u32 };
            let shared: Mutex<(PartStats, Option<(GraphCase, Fail)>)> = Mutex::new((PartStats::default(), None));
            std::thread::scope(|scope| {
                for j in 0..jobs {
                    let shared = &shared;
                    std::thread::Builder::new()
                        .stack_size(16 << 20)
                        .spawn_scoped(scope, move || {
                            let mut local = PartStats::default();
                            let mut first: Option<(GraphCase, Fail)> = None;
                            'outer: for n in 2..=5u8 {
                                let m = u32::from(n) * (u32::from(n) - 1);
                                let total: u64 = 1u64 << m;
                                let stride = if n == 5 { stride5 } else { 1 };
                                let mut mask = j as u64 * u64::from(stride);
                                while mask < total {
                                    let c = case_for(n, mask as u32);
                                    let mut ctx = CaseCtx::new(findings, false);
                                    let r = std::panic::catch_unwind(std::panic::AssertUnwindSafe(|| eval_graph(&c, &mut ctx)));
                                    local.evaluations += 1;
                                    match r {
                                        Ok(Ok((cyclic, nontrivial, rounds, cyclic_sccs))) => {
                                            local.label(if cyclic { "cyclic" } else { "acyclic" });
                                            if nontrivial {
                                                local.label("cycle>=3 + acyclic noise");
                                                local.nontrivial.insert(nv_engine::fnv64(format!("{n}:{mask}").as_bytes()));
                                                if local.samples.is_empty() && j == 0 && n == 5 {
                                                    local.sample(serde_json::json!({"case": c}));
                                                }
                                            }
                                            let _ = rounds; // victim choice is hash-order dependent: not a class
                                            if cyclic_sccs >= 2 {
                                                local.label("two or more separate deadlocks (cyclic SCCs)");
                                            }
                                            local.label(match c.mode % 4 {
                                                0 => "built: add ascending",
                                                1 => "built: add descending",
                                                2 => "built: complete then remove_wait",
                                                _ => "built: extra tx then remove_transaction",
                                            });
                                        },
                                        Ok(Err(f)) => {
                                            first = Some((c, f));
                                            break 'outer;
                                        },
                                        Err(p) => {
                                            let m = nv_engine::runner::panic_message(&p);
                                            first = Some((c, Fail::new("panic:digraph", format!("panic: {m}"))));
                                            break 'outer;
                                        },
                                    }
                                    mask += jobs as u64 * u64::from(stride);
                                }
                            }
                            let mut sh = shared.lock().unwrap();
                            sh.0.merge(local);
                            if let Some((c, f)) = first {
                                let better = match &sh.1 {
                                    None => true,
                                    Some((o, _)) => (c.n, c.mask.count_ones(), c.mask) < (o.n, o.mask.count_ones(), o.mask),
                                };
                                if better {
                                    sh.1 = Some((c, f));
                                }
                            }
                        })
                        .expect("spawn");
                }
            });
            let (st, viol) = shared.into_inner().unwrap();
            stats.merge(st);
            stats.exhaustive = stride5 == 1;
            stats.extra.insert("domain".into(), serde_json::json!("every digraph without self loops on 2,3,4,5 transactions (4+64+4096+1048576)"));
            viol.map(|(c, f)| {
                let small = shrink_graph(&c, &f.sig, findings);
                let mut ctx = CaseCtx::new(findings, false);
                let f2 = eval_graph(&small, &mut ctx).err().unwrap_or(f);
                let path = nv_engine::runner::write_replay(cfg, "digraphs", &f2, &serde_json::to_value(&small).unwrap());
                Violation { part: "digraphs".into(), sig: f2.sig, msg: f2.msg, replay: path }
            })
        }),
        replay: Box::new(|case, findings, strict| {
            let c: GraphCase = serde_json::from_value(case.clone()).map_err(|e| Fail::new("replay-format", e.to_string()))?;
            let mut ctx = CaseCtx::new(findings, strict);
            eval_graph(&c, &mut ctx).map(|_| ())
        }),
    }
}

// ------------------------------------------------------------------ random histories on up to 8 transactions

#[derive(Clone, Debug, Serialize, Deserialize)]
pub enum GOp {
    Add(u8, u8, Option<u8>),
    RemoveWait(u8, u8),
    RemoveTx(u8),
    /// ring through the first `len` nodes of the permutation plus forward-only (DAG) edges chosen by `noise`
    Plant { perm: Vec<u8>, len: u8, noise: u32 },
    /// abort the victims named by detect() until it is silent
    Resolve,
}

#[derive(Clone, Debug, Serialize, Deserialize)]
pub struct GraphOpsCase {
    pub n: u8,
    pub policy: u8,
    /// per-transaction edge limit of the detector's graph (0 = unlimited)
    pub limit: u8,
    pub ops: Vec<GOp>,
}

pub fn graphops_strategy(t: Tier) -> impl Strategy<Value = GraphOpsCase> {
    let max_ops = t.pick(40usize, 70usize);
    (3u8..=8, 0u8..8, prop_oneof![6 => Just(0u8), 1 => 1u8..=3]).prop_flat_map(move |(n, policy, limit)| {
        let op = prop_oneof![
            10 => (0..n, 0..n, prop::option::of(0u8..4)).prop_map(|(a, b, p)| GOp::Add(a, b, p)),
            3 => (0..n, 0..n).prop_map(|(a, b)| GOp::RemoveWait(a, b)),
            1 => (0..n).prop_map(GOp::RemoveTx),
            1 => (Just((0..n).collect::<Vec<u8>>()).prop_shuffle(), 3u8..=8, any::<u32>()).prop_map(|(perm, len, noise)| GOp::Plant { perm, len, noise }),
            1 => Just(GOp::Resolve),
        ];
        prop::collection::vec(op, 1..max_ops).prop_map(move |ops| GraphOpsCase { n, policy, limit, ops })
    })
}

pub fn graphops_check(c: &GraphOpsCase, ctx: &mut CaseCtx) -> Result<(), Fail> {
    let n = c.n as usize;
    let with_fn = c.policy % 8 >= 4;
    let limit = c.limit as usize;
    let det = make_detector(c.policy, with_fn, limit);
    let ids = IdMap::new((0..n).map(node_id).collect());
    let mut g = Dg::new(n);
    let mut nontrivial = false;
    let mut max_nodes_in_cycle_graph = 0usize;
    let mut dropped = false;
    let add = |g: &mut Dg, a: usize, b: usize, p: Option<u32>, dropped: &mut bool| {
        det.graph().add_wait(ids.ids[a], ids.ids[b], p);
        if a == b {
            return; // documented: self-wait is ignored
        }
        if limit > 0 && g.adj[a].count_ones() as usize >= limit {
            *dropped = true; // documented: silently dropped beyond the per-transaction limit
            return;
        }
        g.add(a, b);
    };
    for op in &c.ops {
        match op {
            GOp::Add(a, b, p) => {
                let (a, b) = (*a as usize % n, *b as usize % n);
                if a == b {
                    ctx.label("self-wait ignored");
                }
                add(&mut g, a, b, p.map(u32::from), &mut dropped);
            },
            GOp::RemoveWait(a, b) => {
                let (a, b) = (*a as usize % n, *b as usize % n);
                det.graph().remove_wait(ids.ids[a], ids.ids[b]);
                g.remove(a, b);
            },
            GOp::RemoveTx(a) => {
                let a = *a as usize % n;
                det.graph().remove_transaction(ids.ids[a]);
                g.remove_node(a);
                if !det.graph().waiting_for(ids.ids[a]).is_empty() || !det.graph().waiting_on(ids.ids[a]).is_empty() {
                    ctx.fail("removed-tx-still-in-graph", format!("remove_transaction({}) left edges of it", ids.ids[a]))?;
                }
            },
            GOp::Plant { perm, len, noise } => {
                let mut order: Vec<usize> = perm.iter().map(|x| *x as usize % n).collect();
                order.dedup();
                let mut seen = BTreeSet::new();
                order.retain(|x| seen.insert(*x));
                if order.len() >= 3 {
                    let len = (*len as usize).clamp(3, order.len());
                    for k in 0..len {
                        add(&mut g, order[k], order[(k + 1) % len], None, &mut dropped);
                    }
                    // noise: edges from ring/other nodes forward along the permutation order among the non-ring nodes
                    let mut bit = 0;
                    for i in 0..order.len() {
                        for j in (i + 1)..order.len() {
                            if j >= len {
                                if noise & (1 << (bit % 32)) != 0 {
                                    add(&mut g, order[i], order[j], Some(bit as u32 % 4), &mut dropped);
                                }
                                bit += 1;
                            }
                        }
                    }
                    ctx.label("planted ring + DAG noise");
                }
            },
            GOp::Resolve => {
                // on a copy built from the recorded edges: which victim is named depends on hash order and
                // wall-clock wait starts, and must not leak into the rest of the (deterministic) history
                let det2 = make_detector(c.policy, with_fn, 0);
                for a in 0..n {
                    for b in 0..n {
                        if g.has(a, b) {
                            det2.graph().add_wait(ids.ids[a], ids.ids[b], det.graph().get_priority(ids.ids[a]));
                        }
                    }
                }
                let mut g2 = g.clone();
                check_edges(&g2, &ids, det2.graph(), ctx)?;
                let rounds = resolve_by_victims(&mut g2, &ids, &det2, c.policy, with_fn, ctx)?;
                if g.cyclic() {
                    ctx.label("resolved by aborting victims");
                }
                let _ = rounds;
            },
        }
        check_edges(&g, &ids, det.graph(), ctx)?;
        check_detection(&g, &ids, &det, c.policy, with_fn, ctx)?;
        if g.cyclic() {
            let used = (0..n).filter(|i| g.adj[*i] != 0 || g.preds(*i) != 0).count();
            max_nodes_in_cycle_graph = max_nodes_in_cycle_graph.max(used);
            if g.nontrivial() {
                nontrivial = true;
            }
        }
    }
    if dropped {
        ctx.label("edge dropped by per-tx limit");
    }
    if max_nodes_in_cycle_graph >= 6 {
        ctx.label("cyclic graph on >=6 transactions");
    }
    if max_nodes_in_cycle_graph > 0 {
        ctx.label("cyclic at some step");
    }
    if nontrivial {
        ctx.label("cycle>=3 + acyclic noise");
        ctx.set_nontrivial();
    }
    Ok(())
}
