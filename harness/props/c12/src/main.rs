//! C12 — 2PC key locks: one holder at a time, none left behind, deadlocks detected.
//!
//! Parts:
//!  * `locks`        op sequences on LockManager + WaitForGraph (6 transactions, 5 keys) against a reference
//!                   lock table: grant iff free, all-or-nothing, release by tx / by handle (with wait cleanup),
//!                   sweep, serialise -> restore; cycle detection cross-checked on the edges that arise.
//!  * `coord`        the same through DistributedTxCoordinator (begin / handle_prepare / record_vote / commit /
//!                   abort / complete_abort / force_resolve / orphan sweep / cleanup_timeouts): after a
//!                   transaction finishes it holds nothing and is neither waiter nor holder in the graph.
//!  * `participant`  the same lock rules through TxParticipant (prepare / commit / abort / cleanup_stale).
//!  * `digraphs`     every digraph on 2..=5 transactions, exhaustively, against a transitive-closure oracle.
//!  * `graphops`     random add_wait / remove_wait / remove_transaction histories on 3..=8 transactions.
//!  * `expiry`       15 ms lock timeout, assertions only after a 40 ms sleep, only in the sound direction.
//!  * `expiry_coord` 15 ms transaction timeout, one 40 ms sleep, then cleanup_timeouts().
//!  * `stress`       2..=6 real threads with an external mutual-exclusion monitor; failing unit = history.

mod coord;
mod dg;
mod expiry;
mod graphs;
mod lm;
mod model;
mod participant;
mod stress;

use nv_engine::{main_for, PropDef, PropPart};

fn main() {
    main_for(PropDef {
        id: "C12",
        level: "exploration",
        rule: "locks/coord/participant: a sequence in which at least one request (try_lock, try_lock_with_wait_tracking, handle_prepare, TxParticipant::prepare) is refused because a requested key is held by another unexpired transaction. digraphs/graphops: the recorded wait-for graph has, at some step, a simple cycle of length >= 3 together with at least one edge that lies on no cycle (acyclic noise). expiry/expiry_coord: at least one lock was granted before the sleep / the case is non-trivial by the coord rule. stress: at least two threads of the round ask for a common key (static property of the generated scripts). distinct = distinct generated case (hash of its JSON); digraphs: distinct (n, edge mask).",
        assumptions: vec![
            "lock expiry is asserted only in the sound direction: after sleeping 40 ms a 15 ms lock/transaction is gone; the main regime uses a one-day lock timeout (coordinator: the fixed 30 s of LockManager::new, cases last milliseconds) so the wall clock never matters",
            "coordinator domain = one DistributedTxCoordinator object playing coordinator and participant (as in the product's integration tests); strict protocol: each (tx, shard) prepared once while Preparing and every vote delivered before the transaction finishes; the loose protocol (retransmitted prepares, votes in flight at finish) is a separately labelled class with its own signatures",
            "semantic (delta-similarity) conflicts are kept out of the way by orthogonal one-hot embeddings; only key-lock conflicts are exercised",
            "the wait-for graph is compared as: every edge present was recorded by a refusal and neither endpoint has finished since (upper bound), every refusal records its edges at once, forward and reverse views agree; edges are never required to persist",
            "victim choice: membership in the reported cycle for all policies, plus the documented order for LowestPriority and MostLocks; Youngest/Oldest depend on wall-clock wait starts and are not compared",
            "lock-handle wrap-around and transaction-id collisions are not reachable by generation",
            "stress: the thread schedule is the operating system's; a green stress pass says nothing about schedules that did not occur",
        ],
        parts: vec![
            PropPart::new("locks", 150_000, 4_000_000, lm::lm_strategy, lm::lm_check).boxed(),
            PropPart::new("coord", 120_000, 2_500_000, coord::co_strategy, coord::co_check).boxed(),
            PropPart::new("participant", 80_000, 2_000_000, participant::pa_strategy, participant::pa_check).boxed(),
            Box::new(graphs::digraphs_part()),
            PropPart::new("graphops", 80_000, 3_000_000, graphs::graphops_strategy, graphs::graphops_check).boxed(),
            PropPart::new("expiry", 1_600, 24_000, expiry::exp_strategy, expiry::exp_check).boxed(),
            PropPart::new("expiry_coord", 1_600, 24_000, coord::co_timeout_strategy, coord::co_check).boxed(),
            Box::new(stress::stress_part()),
        ],
        children: vec![],
    });
}
