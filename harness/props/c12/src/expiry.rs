//! Part `expiry` (lock-manager half): a 15 ms lock timeout. Nothing is asserted before the sleep (a slow
//! thread may already see expiries there); after sleeping 40 ms every lock taken before is past its deadline
//! and the only assertions are in the sound direction: it no longer blocks, it is no longer reported, the
//! sweep removes it and (with wait cleanup) its holder leaves the wait-for graph.

use crate::model::*;
use nv_engine::{CaseCtx, Fail, Tier};
use proptest::prelude::*;
use serde::{Deserialize, Serialize};
use std::collections::BTreeSet;
use std::time::Duration;
use tensor_chain::deadlock::WaitForGraph;
use tensor_chain::distributed_tx::LockManager;

#[derive(Clone, Debug, Serialize, Deserialize)]
pub enum After {
    /// another transaction asks for these keys (tracked or not): must be granted as a whole
    Steal { keys: Vec<u8>, track: bool },
    /// plain sweep
    Cleanup,
    /// sweep with wait-graph cleanup
    CleanupGraph,
    /// one of the pre-sleep transactions (whose locks expired) finishes late: release by transaction id.
    /// Keys that another transaction took over meanwhile must stay with their new holder.
    ReleaseOld(u8),
    /// one of the transactions that took expired keys over finishes: release by transaction id;
    /// none of its locks may remain and its key list must be empty
    ReleaseTaker(u8),
}

#[derive(Clone, Debug, Serialize, Deserialize)]
pub struct ExpCase {
    /// (tx, keys, tracked) requests before the sleep
    pub before: Vec<(u8, Vec<u8>, bool)>,
    pub after: Vec<After>,
}

pub fn exp_strategy(_t: Tier) -> impl Strategy<Value = ExpCase> {
    let after = prop_oneof![
        3 => (prop::collection::vec(0..NKEYS, 1..=4), any::<bool>()).prop_map(|(keys, track)| After::Steal { keys, track }),
        1 => Just(After::Cleanup),
        2 => Just(After::CleanupGraph),
        3 => (0u8..5).prop_map(After::ReleaseOld),
        3 => (0u8..4).prop_map(After::ReleaseTaker),
    ];
    (prop::collection::vec((0u8..5, prop::collection::vec(0..NKEYS, 1..=3), any::<bool>()), 1..8), prop::collection::vec(after, 1..4))
        .prop_map(|(before, after)| ExpCase { before, after })
}

pub fn exp_check(c: &ExpCase, ctx: &mut CaseCtx) -> Result<(), Fail> {
    let lm = LockManager::with_default_timeout(Duration::from_millis(60));
    let wg = WaitForGraph::new();
    let mut any_granted = false;
    let mut any_edge = false;
    for (tx, keys, track) in &c.before {
        let id = 301 + u64::from(*tx % 5);
        let ks = keys_of(keys);
        let ok = if *track { lm.try_lock_with_wait_tracking(id, &ks, &wg, None).is_ok() } else { lm.try_lock(id, &ks).is_ok() };
        any_granted |= ok;
        any_edge |= *track && !ok;
    }
    std::thread::sleep(Duration::from_millis(100));
    // every entry of the table is now >= 100 ms old
    for k in 0..NKEYS {
        if let Some(t) = lm.lock_holder(&key(k)) {
            ctx.fail("expired-lock-still-reported", format!("lock_holder(k{k}) = {t} 100 ms after a grant with a 60 ms timeout"))?;
        }
        if lm.is_locked(&key(k)) {
            ctx.fail("expired-lock-still-reported", format!("is_locked(k{k}) 100 ms after a grant with a 60 ms timeout"))?;
        }
    }
    let mut thief = 400u64;
    let t_after = std::time::Instant::now();
    // key -> (new holder, when it was granted): filled on every successful takeover
    let mut taken: std::collections::BTreeMap<u8, (u64, std::time::Instant)> = std::collections::BTreeMap::new();
    // takers in the order of their grants, with the keys each was granted
    let mut takers: Vec<(u64, Vec<u8>)> = Vec::new();
    for a in &c.after {
        match a {
            After::Steal { keys, track } => {
                thief += 1;
                // thieves' own locks are young; a later thief may legitimately be blocked by an earlier one, so
                // each thief only asks for keys no earlier thief took (checked against the SUT-independent list)
                let ks = keys_of(keys);
                let r = if *track { lm.try_lock_with_wait_tracking(thief, &ks, &wg, None).map_err(|i| i.blocking_tx_id) } else { lm.try_lock(thief, &ks) };
                match r {
                    Ok(_) => {
                        ctx.label("expired lock taken over by another transaction");
                        for k in keys {
                            taken.insert(*k, (thief, std::time::Instant::now()));
                        }
                        takers.push((thief, keys.clone()));
                        // the reverse index lists every key the grant covers (release by id walks it)
                        let listed: BTreeSet<String> = lm.keys_for_transaction(thief).into_iter().collect();
                        for k in keys {
                            if !listed.contains(&key(*k)) {
                                ctx.fail(
                                    "granted-key-not-indexed",
                                    format!("tx {thief} was granted {keys:?} (k{k} over an expired lock) but keys_for_transaction({thief}) = {listed:?}"),
                                )?;
                            }
                        }
                        // the harness must stay well inside the thief's own 60 ms for the next read to be meaningful
                        if t_after.elapsed() < Duration::from_millis(20) {
                            for k in keys {
                                let h = lm.lock_holder(&key(*k));
                                if t_after.elapsed() < Duration::from_millis(40) && h != Some(thief) {
                                    ctx.fail("takeover-not-effective", format!("tx {thief} was granted k{k} over an expired lock but lock_holder = {h:?}"))?;
                                }
                            }
                        }
                    },
                    Err(b) => {
                        // sound only if the blocker is one of the pre-sleep transactions (their locks are expired);
                        // a blocker that is an earlier thief holds a young lock and may legitimately block
                        if (301..=305).contains(&b) {
                            ctx.fail("expired-lock-still-blocks", format!("tx {thief} was refused {keys:?} because of tx {b} whose locks expired >= 40 ms ago"))?;
                        } else {
                            ctx.label("later taker blocked by an earlier taker (young lock)");
                        }
                    },
                }
            },
            After::ReleaseOld(t) => {
                let old = 301 + u64::from(*t % 5);
                lm.release(old);
                for (k, (holder, at)) in &taken {
                    let h = lm.lock_holder(&key(*k));
                    // the harness clock only decides whether the assertion is still meaningful: the new
                    // holder's own lock is valid for 60 ms
                    if at.elapsed() < Duration::from_millis(30) {
                        if h != Some(*holder) {
                            ctx.fail(
                                "takeover-lock-released-by-old-holder",
                                format!("tx {holder} took over k{k} after tx {old}'s lock expired; releasing tx {old} by id left lock_holder(k{k}) = {h:?}"),
                            )?;
                        } else {
                            ctx.label("late release of an expired holder left the new holder's lock alone");
                            ctx.set_nontrivial();
                        }
                    }
                }
                if !lm.keys_for_transaction(old).is_empty() {
                    ctx.fail("released-tx-still-indexed", format!("release({old}) left keys_for_transaction = {:?}", lm.keys_for_transaction(old)))?;
                }
            },
            After::ReleaseTaker(i) => {
                if takers.is_empty() {
                    continue;
                }
                let (t, ks) = takers.remove(*i as usize % takers.len());
                lm.release(t);
                ctx.label("a transaction that took expired keys over was released by id");
                ctx.set_nontrivial();
                for k in &ks {
                    if taken.get(k).is_some_and(|(h, _)| *h == t) {
                        taken.remove(k);
                    }
                    if lm.lock_holder(&key(*k)) == Some(t) {
                        ctx.fail("lock-left-after-release", format!("tx {t} took k{k} over from an expired holder; after release({t}) lock_holder(k{k}) is still {t}"))?;
                    }
                }
                if !lm.keys_for_transaction(t).is_empty() {
                    ctx.fail("released-tx-still-indexed", format!("release({t}) left keys_for_transaction = {:?}", lm.keys_for_transaction(t)))?;
                }
            },
            After::Cleanup | After::CleanupGraph => {
                let with_graph = matches!(a, After::CleanupGraph);
                let snapshot = lm.to_serializable();
                let old_holders: BTreeSet<u64> = snapshot.locks().values().map(|l| l.tx_id).filter(|t| (301..=305).contains(t)).collect();
                let old_entries = snapshot.locks().values().filter(|l| (301..=305).contains(&l.tx_id)).count();
                let n = if with_graph { lm.cleanup_expired_with_wait_cleanup(&wg) } else { lm.cleanup_expired() };
                if n < old_entries {
                    ctx.fail("expired-lock-not-swept", format!("sweep removed {n} locks, {old_entries} entries were >= 100 ms old with a 60 ms timeout"))?;
                }
                let left = lm.to_serializable();
                for l in left.locks().values() {
                    if (301..=305).contains(&l.tx_id) {
                        ctx.fail("expired-lock-not-swept", format!("after the sweep the table still has {} -> tx {}", l.key, l.tx_id))?;
                    }
                }
                for t in &old_holders {
                    let idx = lm.keys_for_transaction(*t);
                    // keys that a taker took over stay listed until release(tx): only keys swept now are checked
                    for k in &idx {
                        if snapshot.locks().get(k).is_some_and(|l| l.tx_id == *t) {
                            ctx.fail("expired-lock-index-left", format!("sweep removed the expired lock on {k} but keys_for_transaction({t}) still lists it"))?;
                        }
                    }
                    if with_graph {
                        let on = wg.waiting_on(*t);
                        let wf = wg.waiting_for(*t);
                        if !on.is_empty() || !wf.is_empty() {
                            ctx.fail("expired-holder-left-in-graph", format!("sweep with wait cleanup expired the locks of tx {t} but it still waits for {wf:?} / is awaited by {on:?}"))?;
                        }
                        for o in 301..=305u64 {
                            if wg.waiting_for(o).contains(t) {
                                ctx.fail("expired-holder-left-in-graph", format!("sweep with wait cleanup expired the locks of tx {t} but {o} still waits for it"))?;
                            }
                        }
                    }
                }
                if !old_holders.is_empty() {
                    ctx.label(if with_graph { "sweep with wait cleanup removed expired locks" } else { "sweep removed expired locks" });
                }
            },
        }
    }
    if any_edge {
        ctx.label("wait edge recorded before expiry");
    }
    if any_granted {
        ctx.set_nontrivial();
    }
    Ok(())
}
