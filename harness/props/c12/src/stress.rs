//! Part `stress`: 2..=6 real threads hammer one `LockManager` + `WaitForGraph`. Each thread plays a sequence
//! of transactions (scripts come from a proptest strategy seeded from VERIF_SEED; the thread schedule is the
//! operating system's). An external mutual-exclusion monitor keeps one owner cell per key: compare-and-swap on
//! every grant, cleared *before* the corresponding release call. The failing unit is the recorded history,
//! which the replay re-validates by itself (no product code involved).

use crate::model::*;
use nv_engine::{CaseCtx, CustomPart, Fail, Findings, PartStats, RunCfg, Violation};
use proptest::prelude::*;
use proptest::strategy::ValueTree;
use proptest::test_runner::{Config, RngAlgorithm, TestRng, TestRunner};
use serde::{Deserialize, Serialize};
use std::collections::{BTreeMap, BTreeSet};
use std::sync::atomic::{AtomicU64, Ordering};
use std::sync::{Barrier, Mutex};
use std::time::Duration;
use tensor_chain::deadlock::WaitForGraph;
use tensor_chain::distributed_tx::LockManager;

#[derive(Clone, Debug, Serialize, Deserialize)]
pub enum Step {
    Lock { keys: Vec<u8>, track: bool },
    ReleaseOne { which: u16 },
}

/// One transaction = a few steps, then everything it holds is released.
pub type Script = Vec<Step>;

#[derive(Clone, Debug, Serialize, Deserialize, PartialEq, Eq)]
pub enum Ev {
    Grant { seq: u64, tx: u64, keys: Vec<u8>, handle: u64 },
    Refuse { seq: u64, tx: u64, keys: Vec<u8>, blocker: u64 },
    /// logged before the release call; the cells of `keys` were cleared just before
    ReleaseStart { seq: u64, tx: u64, keys: Vec<u8>, handle: u64 },
    /// what the monitor or a post-condition saw
    Problem { seq: u64, tx: u64, sig: String, msg: String },
}

impl Ev {
    fn seq(&self) -> u64 {
        match self {
            Ev::Grant { seq, .. } | Ev::Refuse { seq, .. } | Ev::ReleaseStart { seq, .. } | Ev::Problem { seq, .. } => *seq,
        }
    }
}

#[derive(Clone, Debug, Serialize, Deserialize)]
pub struct History {
    pub threads: usize,
    pub events: Vec<Ev>,
}

fn script_strategy() -> impl Strategy<Value = Script> {
    let step = prop_oneof![
        5 => (prop::collection::vec(0..NKEYS, 1..=3), any::<bool>()).prop_map(|(keys, track)| Step::Lock { keys, track }),
        1 => any::<u16>().prop_map(|which| Step::ReleaseOne { which }),
    ];
    prop::collection::vec(step, 1..6)
}

/// Independent re-validation of a history: in sequence order, between two grants of one key to different
/// transactions the first must have started a release covering the key. Also surfaces recorded problems.
pub fn validate_history(h: &History, ctx: &mut CaseCtx) -> Result<(), Fail> {
    let mut evs = h.events.clone();
    evs.sort_by_key(Ev::seq);
    let mut owner: BTreeMap<u8, u64> = BTreeMap::new();
    for e in &evs {
        match e {
            Ev::Grant { tx, keys, seq, .. } => {
                for k in keys {
                    if let Some(o) = owner.get(k) {
                        if o != tx {
                            ctx.fail("two-holders", format!("history: k{k} granted to tx {tx} at seq {seq} while tx {o} holds it (no release of it started in between)"))?;
                        }
                    }
                    owner.insert(*k, *tx);
                }
            },
            Ev::ReleaseStart { tx, keys, .. } => {
                for k in keys {
                    if owner.get(k) == Some(tx) {
                        owner.remove(k);
                    }
                }
            },
            Ev::Refuse { .. } => {},
            Ev::Problem { sig, msg, .. } => {
                ctx.fail(sig.clone(), msg.clone())?;
            },
        }
    }
    Ok(())
}

struct Shared {
    lm: LockManager,
    wg: WaitForGraph,
    cells: Vec<AtomicU64>,
    seq: AtomicU64,
}

fn play(sh: &Shared, tx: u64, script: &Script, log: &mut Vec<Ev>, refusals: &mut u64) {
    // this thread is the only actor of `tx`: its own view of what tx holds is exact
    let mut mine: BTreeMap<u8, u64> = BTreeMap::new(); // key -> handle
    let release = |sh: &Shared, mine: &mut BTreeMap<u8, u64>, handle: u64, log: &mut Vec<Ev>| {
        let keys: Vec<u8> = mine.iter().filter(|(_, h)| **h == handle).map(|(k, _)| *k).collect();
        for k in &keys {
            sh.cells[*k as usize].store(0, Ordering::SeqCst);
            mine.remove(k);
        }
        log.push(Ev::ReleaseStart { seq: sh.seq.fetch_add(1, Ordering::SeqCst), tx, keys, handle });
        sh.lm.release_by_handle_with_wait_cleanup(handle, &sh.wg);
    };
    for st in script {
        match st {
            Step::Lock { keys, track } => {
                let ks = keys_of(keys);
                let r = if *track { sh.lm.try_lock_with_wait_tracking(tx, &ks, &sh.wg, None).map_err(|i| i.blocking_tx_id) } else { sh.lm.try_lock(tx, &ks) };
                match r {
                    Ok(handle) => {
                        let distinct: BTreeSet<u8> = keys.iter().map(|k| k % NKEYS).collect();
                        for k in &distinct {
                            let cell = &sh.cells[*k as usize];
                            if let Err(cur) = cell.compare_exchange(0, tx, Ordering::SeqCst, Ordering::SeqCst) {
                                if cur != tx {
                                    log.push(Ev::Problem {
                                        seq: sh.seq.fetch_add(1, Ordering::SeqCst),
                                        tx,
                                        sig: "two-holders".into(),
                                        msg: format!("monitor: k{k} granted to tx {tx} while the owner cell still names tx {cur}"),
                                    });
                                }
                            }
                            mine.insert(*k, handle);
                        }
                        log.push(Ev::Grant { seq: sh.seq.fetch_add(1, Ordering::SeqCst), tx, keys: distinct.into_iter().collect(), handle });
                    },
                    Err(blocker) => {
                        *refusals += 1;
                        log.push(Ev::Refuse { seq: sh.seq.fetch_add(1, Ordering::SeqCst), tx, keys: keys.clone(), blocker });
                        if blocker == tx {
                            log.push(Ev::Problem { seq: sh.seq.fetch_add(1, Ordering::SeqCst), tx, sig: "refusal-names-wrong-holder".into(), msg: format!("tx {tx} was refused because of itself") });
                        }
                        // all-or-nothing: nobody else touches tx's entries, so they must be exactly `mine`
                        let got: BTreeSet<String> = sh.lm.keys_for_transaction(tx).into_iter().collect();
                        let want: BTreeSet<String> = mine.keys().map(|k| key(*k)).collect();
                        if got != want {
                            log.push(Ev::Problem {
                                seq: sh.seq.fetch_add(1, Ordering::SeqCst),
                                tx,
                                sig: "partial-grant-on-refusal".into(),
                                msg: format!("tx {tx} refused for {keys:?} but keys_for_transaction = {got:?}, it held {want:?}"),
                            });
                        }
                    },
                }
            },
            Step::ReleaseOne { which } => {
                let hs: BTreeSet<u64> = mine.values().copied().collect();
                if !hs.is_empty() {
                    let hv: Vec<u64> = hs.into_iter().collect();
                    let h = hv[nv_engine::pick(*which, hv.len())];
                    release(sh, &mut mine, h, log);
                }
            },
        }
    }
    // finish: release everything, then leave the graph (what a coordinator does for a finished transaction)
    let hs: BTreeSet<u64> = mine.values().copied().collect();
    for h in hs {
        release(sh, &mut mine, h, log);
    }
    sh.wg.remove_transaction(tx);
    for k in 0..NKEYS {
        if sh.lm.lock_holder(&key(k)) == Some(tx) {
            log.push(Ev::Problem { seq: sh.seq.fetch_add(1, Ordering::SeqCst), tx, sig: "stress-lock-left".into(), msg: format!("tx {tx} released all its handles but still holds k{k}") });
        }
    }
}

/// Runs one round; returns (history, observed refusals).
fn round(threads: usize, scripts: &[Vec<Script>], base_tx: u64) -> (History, u64) {
    let sh = Shared {
        lm: LockManager::with_default_timeout(Duration::from_secs(86_400)),
        wg: WaitForGraph::new(),
        cells: (0..NKEYS).map(|_| AtomicU64::new(0)).collect(),
        seq: AtomicU64::new(1),
    };
    let barrier = Barrier::new(threads);
    let logs: Mutex<Vec<Ev>> = Mutex::new(Vec::new());
    let refusals = AtomicU64::new(0);
    std::thread::scope(|s| {
        for t in 0..threads {
            let (sh, barrier, logs, refusals) = (&sh, &barrier, &logs, &refusals);
            let my = &scripts[t];
            s.spawn(move || {
                let mut log = Vec::new();
                let mut r = 0u64;
                barrier.wait();
                for (n, sc) in my.iter().enumerate() {
                    let tx = base_tx + (t as u64) * 10_000 + n as u64;
                    play(sh, tx, sc, &mut log, &mut r);
                }
                refusals.fetch_add(r, Ordering::Relaxed);
                logs.lock().unwrap().extend(log);
            });
        }
    });
    let mut events = logs.into_inner().unwrap();
    // quiescence: nothing may be left behind
    let mut seq = sh.seq.load(Ordering::SeqCst);
    let mut problem = |sig: &str, msg: String| {
        seq += 1;
        events.push(Ev::Problem { seq, tx: 0, sig: sig.into(), msg });
    };
    if sh.lm.active_lock_count() != 0 {
        problem("stress-lock-left", format!("all transactions finished but active_lock_count() = {}", sh.lm.active_lock_count()));
    }
    if sh.wg.edge_count() != 0 || !sh.wg.detect_cycles().is_empty() {
        problem("stress-wait-edge-left", format!("all transactions finished and left the graph but edge_count() = {}", sh.wg.edge_count()));
    }
    for (t, my) in scripts.iter().enumerate().take(threads) {
        for n in 0..my.len() {
            let tx = base_tx + (t as u64) * 10_000 + n as u64;
            if !sh.wg.waiting_on(tx).is_empty() || !sh.wg.waiting_for(tx).is_empty() {
                problem("stress-wait-edge-left", format!("finished tx {tx} is still in the wait-for graph"));
            }
            if !sh.lm.keys_for_transaction(tx).is_empty() {
                problem("stress-lock-left", format!("finished tx {tx} still has keys_for_transaction = {:?}", sh.lm.keys_for_transaction(tx)));
            }
        }
    }
    events.sort_by_key(Ev::seq);
    (History { threads, events }, refusals.load(Ordering::Relaxed))
}

pub fn stress_part() -> CustomPart {
    CustomPart {
        name: "stress",
        run: Box::new(|cfg: &RunCfg, findings: &Findings, stats: &mut PartStats| {
            let rounds = cfg.cases(240, 12_000);
            let per_thread = cfg.tier.pick(40usize, 60usize);
            let mut config = Config::default();
            config.failure_persistence = None;
            let seed = nv_engine::mix(cfg.seed ^ nv_engine::fnv64(b"stress"));
            let mut sb = [0u8; 32];
            sb[..8].copy_from_slice(&seed.to_le_bytes());
            sb[8..16].copy_from_slice(&nv_engine::mix(seed).to_le_bytes());
            let mut runner = TestRunner::new_with_rng(config, TestRng::from_seed(RngAlgorithm::ChaCha, &sb));
            let strat = prop::collection::vec(prop::collection::vec(script_strategy(), per_thread), 6);
            let mut refusals_total = 0u64;
            let mut grants_total = 0u64;
            for r in 0..rounds {
                let threads = 2 + (r as usize % 5);
                let scripts: Vec<Vec<Script>> = match strat.new_tree(&mut runner) {
                    Ok(t) => t.current(),
                    Err(e) => {
                        eprintln!("nv: stress: generator failed: {e}");
                        break;
                    },
                };
                let (hist, refusals) = round(threads, &scripts, 1_000_000 + u64::from(r) * 100_000);
                stats.evaluations += 1;
                refusals_total += refusals;
                grants_total += hist.events.iter().filter(|e| matches!(e, Ev::Grant { .. })).count() as u64;
                stats.label(&format!("{threads} threads"));
                // static rule: at least two threads ask for a common key in this round
                let mut per_thread_keys: Vec<BTreeSet<u8>> = Vec::new();
                for my in scripts.iter().take(threads) {
                    let mut s = BTreeSet::new();
                    for sc in my {
                        for st in sc {
                            if let Step::Lock { keys, .. } = st {
                                s.extend(keys.iter().map(|k| k % NKEYS));
                            }
                        }
                    }
                    per_thread_keys.push(s);
                }
                let overlap = (0..threads).any(|a| (a + 1..threads).any(|b| per_thread_keys[a].intersection(&per_thread_keys[b]).next().is_some()));
                if overlap {
                    stats.nontrivial.insert(nv_engine::fnv64(format!("{:?}", &scripts[..threads]).as_bytes()));
                }
                let mut ctx = CaseCtx::new(findings, false);
                if let Err(f) = validate_history(&hist, &mut ctx) {
                    let case = serde_json::to_value(&hist).unwrap_or_default();
                    let path = nv_engine::runner::write_replay(cfg, "stress", &f, &case);
                    return Some(Violation { part: "stress".into(), sig: f.sig, msg: f.msg, replay: path });
                }
                if r == 0 {
                    let short = History { threads: hist.threads, events: hist.events.iter().take(12).cloned().collect() };
                    stats.sample(serde_json::json!({"first events of round 0": short}));
                }
            }
            stats.extra.insert(
                "observed (schedule dependent, not part of the deterministic counts)".into(),
                serde_json::json!({"grants": grants_total, "refusals under contention": refusals_total}),
            );
            None
        }),
        replay: Box::new(|case, findings, strict| {
            let h: History = serde_json::from_value(case.clone()).map_err(|e| Fail::new("replay-format", e.to_string()))?;
            let mut ctx = CaseCtx::new(findings, strict);
            validate_history(&h, &mut ctx)
        }),
    }
}
