//! Independent digraph oracle (bitmask adjacency, Warshall closure, brute-force simple cycles).
//! Shares nothing with `tensor_chain::deadlock` (which uses a recursive DFS over hash maps).

use nv_engine::{CaseCtx, Fail};
use std::collections::BTreeMap;

/// Digraph on `n <= 16` nodes, `adj[i]` = bitmask of successors of `i`. No self loops.
#[derive(Clone, Debug, PartialEq, Eq)]
pub struct Dg {
    pub n: usize,
    pub adj: Vec<u32>,
}

impl Dg {
    pub fn new(n: usize) -> Self {
        assert!(n <= 16);
        Dg { n, adj: vec![0; n] }
    }
    pub fn add(&mut self, a: usize, b: usize) {
        if a != b {
            self.adj[a] |= 1 << b;
        }
    }
    pub fn remove(&mut self, a: usize, b: usize) {
        self.adj[a] &= !(1 << b);
    }
    pub fn remove_node(&mut self, a: usize) {
        self.adj[a] = 0;
        for r in self.adj.iter_mut() {
            *r &= !(1 << a);
        }
    }
    pub fn has(&self, a: usize, b: usize) -> bool {
        self.adj[a] & (1 << b) != 0
    }
    pub fn edge_count(&self) -> usize {
        self.adj.iter().map(|m| m.count_ones() as usize).sum()
    }
    pub fn preds(&self, b: usize) -> u32 {
        let mut m = 0;
        for a in 0..self.n {
            if self.has(a, b) {
                m |= 1 << a;
            }
        }
        m
    }
    /// reach[i] = set of nodes reachable from i by a path of >= 1 edge.
    pub fn closure(&self) -> Vec<u32> {
        let mut r = self.adj.clone();
        for k in 0..self.n {
            let rk = r[k];
            for row in r.iter_mut() {
                if *row & (1 << k) != 0 {
                    *row |= rk;
                }
            }
        }
        // Warshall; cross-checked against `closure_slow` on every graph with <= 4 nodes at start-up.
        r
    }
    /// Slow reference closure (iterate to fixpoint) used by the self test.
    pub fn closure_slow(&self) -> Vec<u32> {
        let mut r = self.adj.clone();
        loop {
            let mut changed = false;
            for i in 0..self.n {
                let mut m = r[i];
                for j in 0..self.n {
                    if r[i] & (1 << j) != 0 {
                        m |= r[j];
                    }
                }
                if m != r[i] {
                    r[i] = m;
                    changed = true;
                }
            }
            if !changed {
                return r;
            }
        }
    }
    pub fn cyclic(&self) -> bool {
        let r = self.closure();
        (0..self.n).any(|i| r[i] & (1 << i) != 0)
    }
    /// Number of strongly connected components that contain a cycle.
    pub fn cyclic_sccs(&self) -> usize {
        let r = self.closure();
        let mut seen = 0u32;
        let mut c = 0;
        for i in 0..self.n {
            if r[i] & (1 << i) != 0 && seen & (1 << i) == 0 {
                c += 1;
                for j in 0..self.n {
                    if r[i] & (1 << j) != 0 && r[j] & (1 << i) != 0 {
                        seen |= 1 << j;
                    }
                }
            }
        }
        c
    }
    /// Length of the longest simple cycle (0 if acyclic). Brute force over simple paths; n <= 8 in practice.
    pub fn longest_simple_cycle(&self) -> usize {
        fn rec(g: &Dg, start: usize, cur: usize, used: u32, len: usize, best: &mut usize) {
            let mut succ = g.adj[cur];
            while succ != 0 {
                let j = succ.trailing_zeros() as usize;
                succ &= succ - 1;
                if j == start {
                    if len > *best {
                        *best = len;
                    }
                } else if j > start && used & (1 << j) == 0 {
                    rec(g, start, j, used | (1 << j), len + 1, best);
                }
            }
        }
        let mut best = 0;
        for s in 0..self.n {
            rec(self, s, s, 1 << s, 1, &mut best);
        }
        best
    }
    /// Number of edges that lie on no cycle ("acyclic noise").
    pub fn noise_edges(&self) -> usize {
        let r = self.closure();
        let mut c = 0;
        for a in 0..self.n {
            for b in 0..self.n {
                if self.has(a, b) && r[b] & (1 << a) == 0 {
                    c += 1;
                }
            }
        }
        c
    }
    /// The stated non-triviality rule for graphs: a cycle of length >= 3 plus acyclic noise.
    pub fn nontrivial(&self) -> bool {
        self.noise_edges() >= 1 && self.longest_simple_cycle() >= 3
    }
}

/// Maps SUT transaction ids to model node indices.
pub struct IdMap {
    pub ids: Vec<u64>,
    pub index: BTreeMap<u64, usize>,
}

impl IdMap {
    pub fn new(ids: Vec<u64>) -> Self {
        let index = ids.iter().enumerate().map(|(i, id)| (*id, i)).collect();
        IdMap { ids, index }
    }
}

/// A reported cycle must be a closed walk of recorded edges (consecutive pairs and last -> first).
pub fn check_cycle_walk(g: &Dg, ids: &IdMap, cycle: &[u64], ctx: &mut CaseCtx, who: &str) -> Result<(), Fail> {
    if cycle.is_empty() {
        ctx.fail("reported-cycle-empty", format!("{who}: an empty cycle was reported"))?;
        return Ok(());
    }
    let mut idx = Vec::with_capacity(cycle.len());
    for t in cycle {
        match ids.index.get(t) {
            Some(i) => idx.push(*i),
            None => {
                ctx.fail("reported-cycle-unknown-tx", format!("{who}: cycle {cycle:?} names a transaction that was never recorded"))?;
                return Ok(());
            },
        }
    }
    for k in 0..idx.len() {
        let (a, b) = (idx[k], idx[(k + 1) % idx.len()]);
        if a == b || !g.has(a, b) {
            ctx.fail(
                "reported-cycle-not-closed-walk",
                format!(
                    "{who}: reported cycle {cycle:?} uses {} -> {} which is not a recorded wait-for edge",
                    cycle[k],
                    cycle[(k + 1) % idx.len()]
                ),
            )?;
            return Ok(());
        }
    }
    Ok(())
}

/// detect_cycles() non-empty <=> model cyclic; every reported cycle is a closed walk.
pub fn check_detect_cycles(g: &Dg, ids: &IdMap, cycles: &[Vec<u64>], ctx: &mut CaseCtx) -> Result<(), Fail> {
    let cyclic = g.cyclic();
    if cyclic && cycles.is_empty() {
        ctx.fail("cycle-missed", format!("recorded edges contain a cycle but detect_cycles() is empty; adj={:?} ids={:?}", g.adj, ids.ids))?;
    }
    if !cyclic && !cycles.is_empty() {
        ctx.fail(
            "false-cycle-reported",
            format!("recorded edges are acyclic but detect_cycles() = {cycles:?}; adj={:?} ids={:?}", g.adj, ids.ids),
        )?;
        return Ok(());
    }
    for c in cycles {
        check_cycle_walk(g, ids, c, ctx, "detect_cycles")?;
    }
    Ok(())
}

#[cfg(test)]
mod tests {
    use super::*;
    #[test]
    fn closure_matches_slow() {
        for n in 1..=4usize {
            let m = n * (n - 1);
            for mask in 0u32..(1 << m) {
                let g = from_mask(n, mask);
                assert_eq!(g.closure(), g.closure_slow());
            }
        }
    }
    fn from_mask(n: usize, mask: u32) -> Dg {
        let mut g = Dg::new(n);
        let mut e = 0;
        for i in 0..n {
            for j in 0..n {
                if i != j {
                    if mask & (1 << e) != 0 {
                        g.add(i, j);
                    }
                    e += 1;
                }
            }
        }
        g
    }
}
