//! Parts `coord` / `expiry` (coordinator half): the same lock rules through
//! `DistributedTxCoordinator::{begin, handle_prepare, record_vote, commit, abort, complete_abort,
//! force_resolve, cleanup_timeouts, release_orphaned_locks}` on one coordinator object, plus foreign
//! transactions that lock directly through `lock_manager()` (as the product's integration tests do).
//!
//! Protocol classes. `loose = false` (strict): every (transaction, shard) is prepared at most once, only while
//! the transaction is still Preparing, and every vote produced by `handle_prepare` is delivered to
//! `record_vote` before the transaction is finished. `loose = true` additionally allows retransmitted prepares
//! and votes that are still in flight (or get rejected) when the transaction finishes.

use crate::model::*;
use nv_engine::{pick, CaseCtx, Fail, Tier};
use proptest::prelude::*;
use serde::{Deserialize, Serialize};
use std::collections::BTreeSet;
use tensor_chain::consensus::{ConsensusConfig, ConsensusManager};
use tensor_chain::distributed_tx::{DistributedTxConfig, DistributedTxCoordinator, PrepareRequest, PrepareVote, TxPhase};
use tensor_chain::Transaction;
use tensor_store::SparseVector;

pub const MAX_TX: usize = 6;

#[derive(Clone, Debug, Serialize, Deserialize)]
pub enum CoOp {
    Begin { shards: u8 },
    Prepare { tx: u16, shard: u8, keys: Vec<u8>, deliver: bool },
    Deliver { which: u16 },
    VoteNo { tx: u16, shard: u8 },
    Commit { tx: u16 },
    Abort { tx: u16 },
    CompleteAbort { tx: u16 },
    ForceResolve { tx: u16, commit: bool },
    Sweep { all: bool },
    CleanupTimeouts,
    ExtLock { ext: u8, keys: Vec<u8> },
    ExtRelease { ext: u8 },
    /// deadlock pattern: `n` new two-shard transactions, transaction i prepares shard 0 on key i, then every
    /// transaction prepares shard 1 on the key of its successor
    Ring { n: u8, deliver: bool },
}

#[derive(Clone, Debug, Serialize, Deserialize)]
pub struct CoCase {
    pub loose: bool,
    /// expiry regime: 15 ms transaction timeout, one sleep of 40 ms at the end, then cleanup_timeouts()
    pub timeouts: bool,
    pub ops: Vec<CoOp>,
}

fn co_op_strategy() -> impl Strategy<Value = CoOp> {
    prop_oneof![
        5 => (1u8..=3).prop_map(|shards| CoOp::Begin { shards }),
        14 => (any::<u16>(), 0u8..3, prop::collection::vec(0..NKEYS, 0..=3), prop::bool::weighted(0.7))
            .prop_map(|(tx, shard, keys, deliver)| CoOp::Prepare { tx, shard, keys, deliver }),
        4 => any::<u16>().prop_map(|which| CoOp::Deliver { which }),
        1 => (any::<u16>(), 0u8..3).prop_map(|(tx, shard)| CoOp::VoteNo { tx, shard }),
        4 => any::<u16>().prop_map(|tx| CoOp::Commit { tx }),
        3 => any::<u16>().prop_map(|tx| CoOp::Abort { tx }),
        2 => any::<u16>().prop_map(|tx| CoOp::CompleteAbort { tx }),
        1 => (any::<u16>(), any::<bool>()).prop_map(|(tx, commit)| CoOp::ForceResolve { tx, commit }),
        1 => any::<bool>().prop_map(|all| CoOp::Sweep { all }),
        1 => Just(CoOp::CleanupTimeouts),
        2 => (0u8..2, prop::collection::vec(0..NKEYS, 1..=2)).prop_map(|(ext, keys)| CoOp::ExtLock { ext, keys }),
        1 => (0u8..2).prop_map(|ext| CoOp::ExtRelease { ext }),
        2 => (2u8..=4, any::<bool>()).prop_map(|(n, deliver)| CoOp::Ring { n, deliver }),
    ]
}

pub fn co_strategy(t: Tier) -> impl Strategy<Value = CoCase> {
    let max = t.pick(50usize, 80usize);
    (prop::bool::weighted(0.3), prop::collection::vec(co_op_strategy(), 1..max)).prop_map(|(loose, ops)| CoCase { loose, timeouts: false, ops })
}

pub fn co_timeout_strategy(_t: Tier) -> impl Strategy<Value = CoCase> {
    (prop::bool::weighted(0.3), prop::collection::vec(co_op_strategy(), 1..30)).prop_map(|(loose, ops)| CoCase { loose, timeouts: true, ops })
}

struct HTx {
    id: u64,
    shards: usize,
    prepared: Vec<u32>,
    /// keys of the first prepare of each shard: a retransmission repeats the same request
    first_keys: Vec<Option<Vec<u8>>>,
    voted_no: Vec<bool>,
    done: Option<&'static str>,
}

struct Harness<'a, 'b> {
    c: DistributedTxCoordinator,
    m: LockModel,
    txs: Vec<HTx>,
    inflight: Vec<(usize, usize, PrepareVote)>,
    loose: bool,
    ctx: &'a mut CaseCtx<'b>,
    refused: bool,
}

fn ext_id(e: u8) -> u64 {
    900 + u64::from(e % 2)
}

fn one_hot(i: usize) -> SparseVector {
    let mut v = vec![0.0f32; 32];
    v[i % 32] = 1.0;
    SparseVector::from_dense(&v)
}

impl Harness<'_, '_> {
    fn all_ids(&self) -> Vec<u64> {
        let mut v: Vec<u64> = vec![ext_id(0), ext_id(1)];
        v.extend(self.txs.iter().map(|t| t.id));
        v
    }
    fn live(&self) -> Vec<usize> {
        (0..self.txs.len()).filter(|i| self.txs[*i].done.is_none()).collect()
    }
    fn phase(&self, i: usize) -> Option<TxPhase> {
        self.c.get(self.txs[i].id).map(|t| t.phase)
    }
    fn recorded_handles(&self, i: usize) -> BTreeSet<u64> {
        self.c
            .get(self.txs[i].id)
            .map(|t| t.votes.values().filter_map(|v| if let PrepareVote::Yes { lock_handle, .. } = v { Some(*lock_handle) } else { None }).collect())
            .unwrap_or_default()
    }

    fn deliver(&mut self, i: usize, shard: usize, vote: PrepareVote) {
        let id = self.txs[i].id;
        let r = self.c.record_vote(id, shard, vote);
        match r {
            Ok(Some(TxPhase::Prepared)) => self.ctx.label("vote -> Prepared"),
            Ok(Some(TxPhase::Aborting)) => self.ctx.label("vote -> Aborting"),
            Ok(_) => {},
            Err(_) => self.ctx.label("vote rejected by record_vote"),
        }
    }

    fn deliver_all_of(&mut self, i: usize) {
        let mut k = 0;
        while k < self.inflight.len() {
            if self.inflight[k].0 == i {
                let (_, shard, vote) = self.inflight.remove(k);
                self.deliver(i, shard, vote);
            } else {
                k += 1;
            }
        }
    }

    /// The transaction `i` has just finished through `how`; `recorded` are the lock handles of its recorded
    /// YES votes read immediately before.
    fn finished(&mut self, i: usize, how: &'static str, recorded: &BTreeSet<u64>) -> Result<(), Fail> {
        let id = self.txs[i].id;
        self.txs[i].done = Some(how);
        self.ctx.label(format!("finished by {how}"));
        let held: Vec<(u8, u64)> = self.m.held.iter().filter(|(_, (t, _))| *t == id).map(|(k, (_, h))| (*k, *h)).collect();
        let inflight_here = self.inflight.iter().any(|(t, _, _)| *t == i);
        // "unrecorded-handle": some key is covered by a grant whose handle is not among the recorded YES votes
        // (vote in flight or rejected, or the grant of a retransmitted prepare replaced the recorded handle)
        let detail = if held.is_empty() {
            "holds-nothing"
        } else if held.iter().all(|(_, h)| recorded.contains(h)) {
            "recorded"
        } else {
            "unrecorded-handle"
        };
        if inflight_here {
            self.ctx.label("finished with a vote still in flight");
        }
        if detail == "unrecorded-handle" {
            self.ctx.label("finished while a held key is covered by an unrecorded handle");
            if self.txs[i].prepared.iter().any(|n| *n > 1) {
                self.ctx.label("finished after a retransmitted prepare re-tagged its keys");
            }
        }
        if held.is_empty() && self.m.upper.iter().any(|(a, _)| *a == id) {
            self.ctx.label("finished after refusal only (waiter without locks)");
        }
        self.m.release_tx(id);
        self.m.drop_edges_of(id);
        let others = self.all_ids();
        let res = residue_of(self.c.lock_manager(), self.c.wait_graph(), id, &others);
        let any = !res.is_empty();
        let proto = if self.loose { "loose" } else { "strict" };
        if detail == "unrecorded-handle" && res.iter().any(|(w, _)| *w == "lock-left") {
            // one cause, one report: the wait-graph residue of such a transaction is a consequence of the lock residue
            let all: Vec<String> = res.iter().map(|(_, m)| m.clone()).collect();
            self.ctx.fail(
                "lock-left:unrecorded-handle",
                format!("transaction #{i} finished by {how} ({proto} protocol, locks at that moment (key, handle): {held:?}, handles of recorded YES votes {recorded:?}) but {}", all.join("; ")),
            )?;
        } else {
            for (what, msg) in res {
                self.ctx.fail(
                    format!("{what}:{detail}"),
                    format!("transaction #{i} finished by {how} ({proto} protocol, locks at that moment (key, handle): {held:?}, handles of recorded YES votes {recorded:?}) but {msg}"),
                )?;
            }
        }
        if any {
            // a recorded finding: put the product into the state the property demands and keep exploring
            self.c.lock_manager().release(id);
            self.c.wait_graph().remove_transaction(id);
        }
        Ok(())
    }

    fn prepare(&mut self, i: usize, shard: usize, keys: &[u8], deliver: bool) -> Result<(), Fail> {
        let id = self.txs[i].id;
        let req_keys: Vec<u8> = self.txs[i].first_keys[shard].clone().unwrap_or_else(|| keys.to_vec());
        let req = PrepareRequest {
            tx_id: id,
            coordinator: "n0".to_string(),
            operations: req_keys.iter().map(|k| Transaction::Put { key: key(*k), data: vec![1] }).collect(),
            delta_embedding: one_hot(i * 3 + shard),
            timeout_ms: 5000,
        };
        if self.txs[i].first_keys[shard].is_some() {
            self.ctx.label("retransmitted prepare (same request again)");
        } else {
            self.txs[i].first_keys[shard] = Some(req_keys.clone());
        }
        let keys: &[u8] = &req_keys;
        let blockers = self.m.blockers(id, keys);
        self.txs[i].prepared[shard] += 1;
        let own_before = self.m.keys_held_by(id);
        let vote = self.c.handle_prepare(&req);
        match (&vote, blockers.is_empty()) {
            (PrepareVote::Yes { lock_handle, .. }, true) => {
                check_fresh_handle(&mut self.m, *lock_handle, self.ctx)?;
                if keys.iter().any(|k| own_before.contains(&(k % NKEYS))) {
                    self.ctx.label("re-entrant grant (key of another shard of the same tx)");
                }
                self.m.grant(id, keys, *lock_handle);
                self.ctx.label("prepare granted");
            },
            (PrepareVote::Yes { .. }, false) => {
                self.ctx.fail("granted-over-held-key", format!("prepare of tx #{i} for {keys:?} voted YES although {:?} is held by {blockers:?}", self.m.conflicting(id, keys)))?;
                return Ok(());
            },
            (PrepareVote::Conflict { conflicting_tx, .. }, false) => {
                self.refused = true;
                self.ctx.label("prepare refused (conflict)");
                if !blockers.contains(conflicting_tx) {
                    self.ctx.fail("refusal-names-wrong-holder", format!("prepare of tx #{i} for {keys:?} names {conflicting_tx} which holds none of the keys (holders {blockers:?})"))?;
                }
                for b in &blockers {
                    self.m.upper.insert((id, *b));
                }
                let wf = self.c.wait_graph().waiting_for(id);
                for b in &blockers {
                    if !wf.contains(b) {
                        self.ctx.fail("wait-edge-not-recorded", format!("prepare of tx #{i} was refused because of {b} but the wait-for graph does not record the edge"))?;
                    }
                }
                check_no_partial_grant(&self.m, self.c.lock_manager(), id, keys, self.ctx, "handle_prepare")?;
            },
            (_, true) => {
                self.ctx.fail("refused-free-keys", format!("prepare of tx #{i} for {keys:?} was refused ({vote:?}) although no requested key is held by another transaction"))?;
                return Ok(());
            },
            (other, false) => {
                // a plain No for a held key is still a refusal; nothing may have been granted
                self.refused = true;
                let _ = other;
                check_no_partial_grant(&self.m, self.c.lock_manager(), id, keys, self.ctx, "handle_prepare")?;
            },
        }
        if deliver {
            self.deliver(i, shard, vote);
        } else {
            self.inflight.push((i, shard, vote));
        }
        Ok(())
    }

    fn prepare_if_applicable(&mut self, i: usize, shard: usize, keys: &[u8], deliver: bool) -> Result<bool, Fail> {
        if self.txs[i].done.is_some() {
            return Ok(false);
        }
        if !self.loose && (self.txs[i].prepared[shard] > 0 || self.txs[i].voted_no[shard] || self.phase(i) != Some(TxPhase::Preparing)) {
            return Ok(false);
        }
        self.prepare(i, shard, keys, deliver)?;
        Ok(true)
    }

    fn step(&mut self, op: &CoOp, timeouts: bool) -> Result<bool, Fail> {
        match op {
            CoOp::Begin { shards } => {
                if self.txs.len() >= MAX_TX {
                    return Ok(false);
                }
                let shards = (*shards as usize).clamp(1, 3);
                let parts: Vec<usize> = (0..shards).collect();
                match self.c.begin(&"n0".to_string(), &parts) {
                    Ok(tx) => self.txs.push(HTx { id: tx.tx_id, shards, prepared: vec![0; shards], first_keys: vec![None; shards], voted_no: vec![false; shards], done: None }),
                    Err(e) => return Err(Fail::new("begin-failed", e.to_string())),
                }
            },
            CoOp::Prepare { tx, shard, keys, deliver } => {
                let live = self.live();
                if live.is_empty() {
                    return Ok(false);
                }
                let i = live[pick(*tx, live.len())];
                let shard = *shard as usize % self.txs[i].shards;
                return self.prepare_if_applicable(i, shard, keys, *deliver);
            },
            CoOp::Ring { n, deliver } => {
                let n = (*n as usize).clamp(2, 4);
                if self.txs.len() + n > MAX_TX {
                    return Ok(false);
                }
                let first = self.txs.len();
                for _ in 0..n {
                    self.step(&CoOp::Begin { shards: 2 }, timeouts)?;
                }
                for k in 0..n {
                    self.prepare_if_applicable(first + k, 0, &[k as u8], true)?;
                }
                for k in 0..n {
                    self.prepare_if_applicable(first + k, 1, &[((k + 1) % n) as u8], *deliver)?;
                }
                self.ctx.label("deadlock ring pattern played");
            },
            CoOp::Deliver { which } => {
                if self.inflight.is_empty() {
                    return Ok(false);
                }
                let (i, shard, vote) = self.inflight.remove(pick(*which, self.inflight.len()));
                if self.txs[i].done.is_some() {
                    self.ctx.label("late vote for a finished transaction");
                }
                self.deliver(i, shard, vote);
            },
            CoOp::VoteNo { tx, shard } => {
                let live = self.live();
                if live.is_empty() {
                    return Ok(false);
                }
                let i = live[pick(*tx, live.len())];
                let shard = *shard as usize % self.txs[i].shards;
                if !self.loose && (self.txs[i].prepared[shard] > 0 || self.txs[i].voted_no[shard] || self.phase(i) != Some(TxPhase::Preparing)) {
                    return Ok(false);
                }
                self.txs[i].voted_no[shard] = true;
                self.deliver(i, shard, PrepareVote::No { reason: "participant says no".to_string() });
            },
            CoOp::Commit { tx } | CoOp::Abort { tx } | CoOp::CompleteAbort { tx } | CoOp::ForceResolve { tx, .. } => {
                let live = self.live();
                if live.is_empty() {
                    return Ok(false);
                }
                let i = live[pick(*tx, live.len())];
                if !self.loose {
                    self.deliver_all_of(i);
                }
                let id = self.txs[i].id;
                let recorded = self.recorded_handles(i);
                let (ok, how) = match op {
                    CoOp::Commit { .. } => (self.c.commit(id).is_ok(), "commit"),
                    CoOp::Abort { .. } => (self.c.abort(id, "harness abort").is_ok(), "abort"),
                    CoOp::CompleteAbort { .. } => (self.c.complete_abort(id).is_ok(), "complete_abort"),
                    CoOp::ForceResolve { commit: true, .. } => (self.c.force_resolve(id, true).is_ok(), "force_resolve(commit)"),
                    _ => (self.c.force_resolve(id, false).is_ok(), "force_resolve(abort)"),
                };
                if ok {
                    self.finished(i, how, &recorded)?;
                } else {
                    return Ok(false);
                }
            },
            CoOp::Sweep { all } => {
                let live_ids: BTreeSet<u64> = self.live().iter().map(|i| self.txs[*i].id).collect();
                let orphans: BTreeSet<u64> = self.m.held.values().map(|(t, _)| *t).filter(|t| !live_ids.contains(t)).collect();
                let n = self.c.release_orphaned_locks(if *all { u64::MAX } else { 0 });
                let mut want = 0;
                if *all {
                    for o in &orphans {
                        want += self.m.keys_held_by(*o).len();
                        self.m.release_tx(*o);
                        self.m.drop_edges_of(*o);
                    }
                    if !orphans.is_empty() {
                        self.ctx.label("orphan sweep released locks");
                    }
                }
                if n != want {
                    self.ctx.fail("orphan-sweep-count", format!("release_orphaned_locks released {n} locks, {want} locks belong to transactions that are not pending"))?;
                }
                if *all {
                    let others = self.all_ids();
                    for o in &orphans {
                        for (what, msg) in residue_of(self.c.lock_manager(), self.c.wait_graph(), *o, &others) {
                            self.ctx.fail(format!("orphan-sweep:{what}"), format!("after the orphan sweep transaction {o} {msg}"))?;
                        }
                    }
                }
            },
            CoOp::CleanupTimeouts => {
                if timeouts {
                    return Ok(false);
                }
                let r = self.c.cleanup_timeouts();
                if !r.is_empty() {
                    self.ctx.fail("timeout-without-deadline", format!("cleanup_timeouts() returned {} transactions although the timeout is practically infinite", r.len()))?;
                }
            },
            CoOp::ExtLock { ext, keys } => {
                let id = ext_id(*ext);
                let blockers = self.m.blockers(id, keys);
                match (self.c.lock_manager().try_lock(id, &keys_of(keys)), blockers.is_empty()) {
                    (Ok(h), true) => {
                        check_fresh_handle(&mut self.m, h, self.ctx)?;
                        self.m.grant(id, keys, h);
                    },
                    (Ok(_), false) => {
                        self.ctx.fail("granted-over-held-key", format!("foreign tx {id} was granted {keys:?} although held by {blockers:?}"))?;
                        return Ok(true);
                    },
                    (Err(_), true) => {
                        self.ctx.fail("refused-free-keys", format!("foreign tx {id} was refused {keys:?} although free"))?;
                        return Ok(true);
                    },
                    (Err(b), false) => {
                        self.refused = true;
                        if !blockers.contains(&b) {
                            self.ctx.fail("refusal-names-wrong-holder", format!("foreign tx {id}: named holder {b} not among {blockers:?}"))?;
                        }
                        check_no_partial_grant(&self.m, self.c.lock_manager(), id, keys, self.ctx, "try_lock")?;
                    },
                }
            },
            CoOp::ExtRelease { ext } => {
                let id = ext_id(*ext);
                self.c.lock_manager().release(id);
                self.m.release_tx(id);
            },
        }
        Ok(true)
    }
}

pub fn co_check(c: &CoCase, ctx: &mut CaseCtx) -> Result<(), Fail> {
    let cfg = DistributedTxConfig { prepare_timeout_ms: if c.timeouts { 15 } else { 1_000_000_000_000 }, ..DistributedTxConfig::default() };
    let coord = DistributedTxCoordinator::new(ConsensusManager::new(ConsensusConfig::default()), cfg);
    let mut h = Harness { c: coord, m: LockModel::default(), txs: Vec::new(), inflight: Vec::new(), loose: c.loose, ctx, refused: false };
    h.ctx.label(if c.loose { "protocol: loose" } else { "protocol: strict" });
    let mut skipped = 0;
    for op in &c.ops {
        if !h.step(op, c.timeouts)? {
            skipped += 1;
        }
        let ids = h.all_ids();
        check_tables(&h.m, h.c.lock_manager(), &ids, h.ctx)?;
        let g = check_graph(&h.m, h.c.wait_graph(), &ids, h.ctx)?;
        if g.cyclic() {
            h.ctx.label("wait-for cycle arose from prepare conflicts");
        }
    }
    if c.timeouts {
        let live = h.live();
        if !c.loose {
            for i in &live {
                h.deliver_all_of(*i);
            }
        }
        let recorded: Vec<BTreeSet<u64>> = live.iter().map(|i| h.recorded_handles(*i)).collect();
        // sound direction only: every pending transaction started >= 40 ms ago, its timeout is 15 ms
        std::thread::sleep(std::time::Duration::from_millis(40));
        let out: BTreeSet<u64> = h.c.cleanup_timeouts().into_iter().collect();
        let want: BTreeSet<u64> = live.iter().map(|i| h.txs[*i].id).collect();
        for (k, i) in live.iter().enumerate() {
            if !out.contains(&h.txs[*i].id) {
                h.ctx.fail("timed-out-tx-not-cleaned", format!("transaction #{i} is 40 ms old with a 15 ms timeout but cleanup_timeouts() did not return it"))?;
                continue;
            }
            h.finished(*i, "timeout", &recorded[k])?;
        }
        if out.difference(&want).next().is_some() {
            h.ctx.fail("cleanup-returned-unknown-tx", "cleanup_timeouts() returned a transaction that was not pending")?;
        }
        if !live.is_empty() {
            h.ctx.label("transactions timed out");
        }
        let ids = h.all_ids();
        check_tables(&h.m, h.c.lock_manager(), &ids, h.ctx)?;
        check_graph(&h.m, h.c.wait_graph(), &ids, h.ctx)?;
    }
    if skipped > 0 {
        h.ctx.label("some ops not applicable (skipped)");
    }
    if h.refused {
        h.ctx.set_nontrivial();
    }
    Ok(())
}
