//! Part `locks`: operation sequences on `LockManager` + `WaitForGraph` for 6 transactions over 5 keys.
//! Every method holds both table locks for its whole body, so a method-granular interleaving of the
//! transactions' calls in one thread is the interleaving space of concurrent callers.

use crate::model::*;
use nv_engine::{pick, CaseCtx, Fail, Tier};
use proptest::prelude::*;
use serde::{Deserialize, Serialize};
use std::collections::BTreeSet;
use std::time::Duration;
use tensor_chain::deadlock::WaitForGraph;
use tensor_chain::distributed_tx::{LockManager, SerializableLockState};

pub const NTX: u8 = 6;

pub fn tx_id(t: u8) -> u64 {
    101 + u64::from(t % NTX)
}

#[derive(Clone, Debug, Serialize, Deserialize)]
pub enum LmOp {
    Lock { tx: u8, keys: Vec<u8>, track: bool, prio: Option<u8> },
    Release { tx: u8 },
    /// release by handle; `live` picks among handles that still cover a key, otherwise among all ever granted
    ReleaseHandle { h: u16, live: bool, cleanup: bool },
    Cleanup { graph: bool },
    /// `ahead` > 0: the restored state is one an EARLIER PROCESS wrote, whose handle counter was
    /// ahead of this process's: every restored handle is moved to the current counter + ahead - 1 and up
    RoundTrip {
        json: bool,
        #[serde(default)]
        ahead: u8,
    },
    /// deadlock pattern: the first `n` transactions of `perm` lock key i each, then each asks (tracked) for the
    /// key of its successor
    Ring { perm: Vec<u8>, n: u8 },
}

#[derive(Clone, Debug, Serialize, Deserialize)]
pub struct LmCase {
    pub ops: Vec<LmOp>,
}

pub fn lm_op_strategy() -> impl Strategy<Value = LmOp> {
    prop_oneof![
        12 => (0..NTX, prop::collection::vec(0..NKEYS, 0..=4), any::<bool>(), prop::option::of(0u8..4))
            .prop_map(|(tx, keys, track, prio)| LmOp::Lock { tx, keys, track, prio }),
        2 => (0..NTX).prop_map(|tx| LmOp::Release { tx }),
        5 => (any::<u16>(), prop::bool::weighted(0.8), any::<bool>()).prop_map(|(h, live, cleanup)| LmOp::ReleaseHandle { h, live, cleanup }),
        1 => any::<bool>().prop_map(|graph| LmOp::Cleanup { graph }),
        1 => (any::<bool>(), prop_oneof![2 => Just(0u8), 3 => 1u8..4]).prop_map(|(json, ahead)| LmOp::RoundTrip { json, ahead }),
        1 => (Just((0..NTX).collect::<Vec<u8>>()).prop_shuffle(), 2u8..=5).prop_map(|(perm, n)| LmOp::Ring { perm, n }),
    ]
}

pub fn lm_strategy(t: Tier) -> impl Strategy<Value = LmCase> {
    let max = t.pick(48usize, 80usize);
    prop::collection::vec(lm_op_strategy(), 1..max).prop_map(|ops| LmCase { ops })
}

struct LmState {
    lm: LockManager,
    wg: WaitForGraph,
    m: LockModel,
    all_handles: Vec<u64>,
    refused: bool,
}

/// One lock request with all its expectations; returns false when the case cannot go on (a known finding
/// made model and product diverge).
fn do_lock(st: &mut LmState, ctx: &mut CaseCtx, tx: u8, keys: &[u8], track: bool, prio: Option<u8>) -> Result<bool, Fail> {
    let id = tx_id(tx);
    let ks = keys_of(keys);
    let blockers = st.m.blockers(id, keys);
    let own_before = st.m.keys_held_by(id);
    let granted: Option<u64>;
    if track {
        match st.lm.try_lock_with_wait_tracking(id, &ks, &st.wg, prio.map(u32::from)) {
            Ok(h) => granted = Some(h),
            Err(info) => {
                granted = None;
                if !blockers.is_empty() {
                    if !blockers.contains(&info.blocking_tx_id) {
                        ctx.fail("refusal-names-wrong-holder", format!("tx {id} refused for {keys:?}: blocking_tx_id {} holds none of the requested keys (holders {blockers:?})", info.blocking_tx_id))?;
                    }
                    let got: BTreeSet<String> = info.conflicting_keys.iter().cloned().collect();
                    let want: BTreeSet<String> = st.m.conflicting(id, keys).iter().map(|k| key(*k)).collect();
                    if got != want {
                        ctx.fail("conflicting-keys-wrong", format!("tx {id} refused for {keys:?}: conflicting_keys {got:?}, keys held by others {want:?}"))?;
                    }
                    for b in &blockers {
                        st.m.upper.insert((id, *b));
                    }
                    let wf = st.wg.waiting_for(id);
                    for b in &blockers {
                        if !wf.contains(b) || !st.wg.waiting_on(*b).contains(&id) {
                            ctx.fail("wait-edge-not-recorded", format!("tx {id} was refused because of {b} but the wait-for graph does not record {id} -> {b}"))?;
                        }
                    }
                    if blockers.len() >= 2 {
                        ctx.label("refused by >=2 holders (tracked)");
                    }
                }
            },
        }
    } else {
        match st.lm.try_lock(id, &ks) {
            Ok(h) => granted = Some(h),
            Err(b) => {
                granted = None;
                if !blockers.is_empty() && !blockers.contains(&b) {
                    ctx.fail("refusal-names-wrong-holder", format!("tx {id} refused for {keys:?}: named holder {b} holds none of the requested keys (holders {blockers:?})"))?;
                }
            },
        }
    }
    match (granted, blockers.is_empty()) {
        (Some(h), true) => {
            check_fresh_handle(&mut st.m, h, ctx)?;
            if keys.iter().any(|k| own_before.contains(&(k % NKEYS))) {
                ctx.label("re-entrant grant (own key re-locked)");
            }
            st.m.grant(id, keys, h);
            st.all_handles.push(h);
            ctx.label("granted");
        },
        (Some(_), false) => {
            ctx.fail("granted-over-held-key", format!("tx {id} was granted {keys:?} although {:?} is held by {blockers:?}", st.m.conflicting(id, keys)))?;
            return Ok(false);
        },
        (None, true) => {
            ctx.fail("refused-free-keys", format!("tx {id} was refused {keys:?} although no requested key is held by another transaction"))?;
            return Ok(false);
        },
        (None, false) => {
            st.refused = true;
            ctx.label("refused");
            let conflicting = st.m.conflicting(id, keys);
            if keys.iter().any(|k| !conflicting.contains(&(k % NKEYS))) {
                ctx.label("refused with partial overlap (some requested keys were free)");
            }
            check_no_partial_grant(&st.m, &st.lm, id, keys, ctx, if track { "try_lock_with_wait_tracking" } else { "try_lock" })?;
        },
    }
    Ok(true)
}

pub fn lm_check(c: &LmCase, ctx: &mut CaseCtx) -> Result<(), Fail> {
    // one day: the wall clock never matters in this regime
    let mut st = LmState {
        lm: LockManager::with_default_timeout(Duration::from_secs(86_400)),
        wg: WaitForGraph::new(),
        m: LockModel::default(),
        all_handles: Vec::new(),
        refused: false,
    };
    let txs: Vec<u64> = (0..NTX).map(tx_id).collect();
    let mut skipped = 0u32;
    for op in &c.ops {
        match op {
            LmOp::Lock { tx, keys, track, prio } => {
                if !do_lock(&mut st, ctx, *tx, keys, *track, *prio)? {
                    return Ok(());
                }
            },
            LmOp::Ring { perm, n } => {
                let n = (*n as usize).clamp(2, perm.len().min(NKEYS as usize));
                for k in 0..n {
                    if !do_lock(&mut st, ctx, perm[k], &[k as u8], false, None)? {
                        return Ok(());
                    }
                }
                for k in 0..n {
                    if !do_lock(&mut st, ctx, perm[k], &[((k + 1) % n) as u8], true, Some(k as u8 % 4))? {
                        return Ok(());
                    }
                }
                ctx.label("deadlock ring pattern played");
            },
            LmOp::Release { tx } => {
                let id = tx_id(*tx);
                st.lm.release(id);
                if !st.m.keys_held_by(id).is_empty() {
                    ctx.label("release(tx) with locks held");
                }
                st.m.release_tx(id);
            },
            LmOp::ReleaseHandle { h, live, cleanup } => {
                let pool = if *live { st.m.live_handles() } else { st.all_handles.clone() };
                if pool.is_empty() {
                    skipped += 1;
                    continue;
                }
                let handle = pool[pick(*h, pool.len())];
                let owner = st.m.release_handle(handle);
                if *cleanup {
                    st.lm.release_by_handle_with_wait_cleanup(handle, &st.wg);
                    if let Some(o) = owner {
                        let had_edges = st.m.upper.iter().any(|(a, b)| *a == o || *b == o);
                        st.m.drop_edges_of(o);
                        let res = residue_of(&st.lm, &st.wg, o, &txs);
                        for (what, msg) in res {
                            if what == "waiter-left" || what == "holder-left" {
                                ctx.fail("wait-edges-left-after-release", format!("release_by_handle_with_wait_cleanup({handle}) of tx {o}: {msg}"))?;
                            }
                        }
                        if had_edges {
                            ctx.label("release with wait cleanup removed edges");
                        }
                    }
                } else {
                    st.lm.release_by_handle(handle);
                }
                if owner.is_none() {
                    ctx.label("release of a stale handle (no-op)");
                }
            },
            LmOp::Cleanup { graph } => {
                let n = if *graph { st.lm.cleanup_expired_with_wait_cleanup(&st.wg) } else { st.lm.cleanup_expired() };
                if n != 0 {
                    ctx.fail("unexpired-lock-expired", format!("cleanup_expired removed {n} locks although the timeout is one day"))?;
                }
            },
            LmOp::RoundTrip { json, ahead } if *ahead > 0 && !st.m.held.is_empty() => {
                // the table comes back from a process that had handed out more handles than this one
                let _ = json;
                let ser = st.lm.to_serializable();
                let mut v = serde_json::to_value(&ser).map_err(|e| Fail::new("lock-state-serialize", e.to_string()))?;
                let min = st.m.held.values().map(|(_, h)| *h).min().unwrap_or(0);
                let d = (tensor_chain::distributed_tx::lock_handle_current() + u64::from(*ahead) - 1).saturating_sub(min);
                if let Some(locks) = v.get_mut("locks").and_then(|l| l.as_object_mut()) {
                    for l in locks.values_mut() {
                        if let Some(h) = l.get("lock_handle").and_then(serde_json::Value::as_u64) {
                            l["lock_handle"] = serde_json::json!(h + d);
                        }
                    }
                }
                let ser: SerializableLockState = match serde_json::from_value(v) {
                    Ok(x) => x,
                    Err(e) => {
                        ctx.fail("lock-state-deserialize", format!("serialised lock state does not read back: {e}"))?;
                        return Ok(());
                    },
                };
                st.lm = LockManager::from_serializable(ser);
                for (_, h) in st.m.held.values_mut() {
                    *h += d;
                    st.m.handles_seen.insert(*h);
                }
                for h in &mut st.all_handles {
                    *h += d;
                }
                ctx.label("lock table restored from a process whose handle counter was ahead");
                ctx.set_nontrivial();
            },
            LmOp::RoundTrip { json, .. } => {
                let ser = st.lm.to_serializable();
                let ser: SerializableLockState = if *json {
                    let s = serde_json::to_string(&ser).map_err(|e| Fail::new("lock-state-serialize", e.to_string()))?;
                    match serde_json::from_str(&s) {
                        Ok(v) => v,
                        Err(e) => {
                            ctx.fail("lock-state-deserialize", format!("serialised lock state does not read back: {e}"))?;
                            return Ok(());
                        },
                    }
                } else {
                    ser
                };
                let t0 = st.lm.default_timeout;
                st.lm = LockManager::from_serializable(ser);
                if st.lm.default_timeout != t0 {
                    ctx.fail("lock-state-timeout-changed", format!("default timeout {:?} became {:?} through to_serializable/from_serializable", t0, st.lm.default_timeout))?;
                }
                if !st.m.held.is_empty() {
                    ctx.label("serialize/restore with locks held");
                }
            },
        }
        check_tables(&st.m, &st.lm, &txs, ctx)?;
        let g = check_graph(&st.m, &st.wg, &txs, ctx)?;
        if g.cyclic() {
            ctx.label("wait-for cycle arose from lock conflicts");
        }
    }
    if skipped > 0 {
        ctx.label("op skipped (no handle yet)");
    }
    if st.refused {
        ctx.set_nontrivial();
    }
    Ok(())
}
