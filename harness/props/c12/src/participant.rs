//! Part `participant`: the shard-side user of `LockManager` — `TxParticipant::{prepare, commit, abort,
//! cleanup_stale}` for 6 transactions over 5 keys. `cleanup_stale(Duration::ZERO)` is the deterministic
//! "everything prepared has timed out" (`>=` comparison), a one-day timeout the deterministic "nothing has".

use crate::model::*;
use nv_engine::{CaseCtx, Fail, Tier};
use proptest::prelude::*;
use serde::{Deserialize, Serialize};
use std::collections::{BTreeMap, BTreeSet};
use std::time::Duration;
use tensor_chain::distributed_tx::{PrepareRequest, PrepareVote, TxParticipant};
use tensor_chain::Transaction;
use tensor_store::SparseVector;

#[derive(Clone, Debug, Serialize, Deserialize)]
pub enum PaOp {
    Prepare { tx: u8, keys: Vec<u8> },
    Commit { tx: u8 },
    Abort { tx: u8 },
    CleanupStale { all: bool },
}

#[derive(Clone, Debug, Serialize, Deserialize)]
pub struct PaCase {
    pub ops: Vec<PaOp>,
}

pub fn pa_strategy(t: Tier) -> impl Strategy<Value = PaCase> {
    let max = t.pick(40usize, 70usize);
    let op = prop_oneof![
        10 => (0u8..6, prop::collection::vec(0..NKEYS, 0..=4)).prop_map(|(tx, keys)| PaOp::Prepare { tx, keys }),
        4 => (0u8..6).prop_map(|tx| PaOp::Commit { tx }),
        3 => (0u8..6).prop_map(|tx| PaOp::Abort { tx }),
        1 => any::<bool>().prop_map(|all| PaOp::CleanupStale { all }),
    ];
    prop::collection::vec(op, 1..max).prop_map(|ops| PaCase { ops })
}

fn residue_locks(p: &TxParticipant, id: u64) -> Option<String> {
    let mut left = Vec::new();
    for k in 0..NKEYS {
        if p.locks.lock_holder(&key(k)) == Some(id) {
            left.push(format!("k{k}"));
        }
    }
    let idx = p.locks.keys_for_transaction(id);
    if left.is_empty() && idx.is_empty() {
        None
    } else {
        Some(format!("still holds {left:?} (keys_for_transaction = {idx:?})"))
    }
}

pub fn pa_check(c: &PaCase, ctx: &mut CaseCtx) -> Result<(), Fail> {
    // the store is shared per thread (its content is not part of this property); the lock table is fresh
    thread_local! {
        static STORE: tensor_store::TensorStore = tensor_store::TensorStore::new();
    }
    let p = TxParticipant::new(STORE.with(|s| s.clone()));
    let mut m = LockModel::default();
    let txs: Vec<u64> = (0..6u64).map(|t| 501 + t).collect();
    // currently prepared transactions and the keys of their prepare
    let mut prepared: BTreeMap<u64, Vec<u8>> = BTreeMap::new();
    let mut refused = false;
    for op in &c.ops {
        match op {
            PaOp::Prepare { tx, keys } => {
                let id = 501 + u64::from(*tx % 6);
                // a prepare for an already prepared transaction is a retransmission: of the same
                // request, or (when the generated key list has odd length) of the request enlarged
                // by further keys — the earlier keys are then all named again, so a grant moves
                // every lock of the transaction under the new handle and a refusal must leave the
                // transaction holding exactly what it held
                let keys: Vec<u8> = match prepared.get(&id) {
                    Some(k) if keys.len() % 2 == 1 => {
                        let mut all = k.clone();
                        all.extend(keys.iter().copied());
                        if m.blockers(id, &all).is_empty() {
                            ctx.label("retransmitted prepare (enlarged, grantable)");
                        } else {
                            ctx.label("retransmitted prepare (enlarged, meets a held key)");
                        }
                        all
                    },
                    Some(k) => {
                        ctx.label("retransmitted prepare (same keys)");
                        k.clone()
                    },
                    None => keys.clone(),
                };
                let blockers = m.blockers(id, &keys);
                let req = PrepareRequest {
                    tx_id: id,
                    coordinator: "n0".into(),
                    operations: keys.iter().map(|k| Transaction::Put { key: key(*k), data: vec![*k] }).collect(),
                    delta_embedding: SparseVector::from_dense(&[1.0, 0.0]),
                    timeout_ms: 5000,
                };
                let vote = p.prepare(req);
                match (&vote, blockers.is_empty()) {
                    (PrepareVote::Yes { lock_handle, .. }, true) => {
                        check_fresh_handle(&mut m, *lock_handle, ctx)?;
                        m.grant(id, &keys, *lock_handle);
                        prepared.insert(id, keys.clone());
                        ctx.label("prepare granted");
                    },
                    (PrepareVote::Yes { .. }, false) => {
                        ctx.fail("granted-over-held-key", format!("participant prepare of {id} for {keys:?} voted YES although held by {blockers:?}"))?;
                        return Ok(());
                    },
                    (PrepareVote::Conflict { conflicting_tx, .. }, false) => {
                        refused = true;
                        ctx.label("prepare refused (conflict)");
                        if !blockers.contains(conflicting_tx) {
                            ctx.fail("refusal-names-wrong-holder", format!("participant prepare of {id}: named holder {conflicting_tx} not among {blockers:?}"))?;
                        }
                        check_no_partial_grant(&m, &p.locks, id, &keys, ctx, "TxParticipant::prepare")?;
                        if p.prepared.read().contains_key(&id) != prepared.contains_key(&id) {
                            ctx.fail("refused-prepare-recorded", format!("refused prepare of {id} changed the prepared set"))?;
                        }
                    },
                    (_, true) => {
                        ctx.fail("refused-free-keys", format!("participant prepare of {id} for {keys:?} refused ({vote:?}) although free"))?;
                        return Ok(());
                    },
                    (_, false) => {
                        refused = true;
                        check_no_partial_grant(&m, &p.locks, id, &keys, ctx, "TxParticipant::prepare")?;
                    },
                }
            },
            PaOp::Commit { tx } | PaOp::Abort { tx } => {
                let id = 501 + u64::from(*tx % 6);
                let commit = matches!(op, PaOp::Commit { .. });
                let was = prepared.remove(&id).is_some();
                let resp = if commit { p.commit(id) } else { p.abort(id) };
                if was {
                    if commit && !resp.success {
                        ctx.fail("participant-commit-failed", format!("commit of prepared {id} failed: {:?}", resp.error))?;
                    }
                    m.release_tx(id);
                    ctx.label(if commit { "finished by commit" } else { "finished by abort" });
                    if let Some(msg) = residue_locks(&p, id) {
                        ctx.fail(if commit { "participant-lock-left:commit" } else { "participant-lock-left:abort" }, format!("transaction {id} finished but {msg}"))?;
                    }
                }
            },
            PaOp::CleanupStale { all } => {
                let out: BTreeSet<u64> = p.cleanup_stale(if *all { Duration::ZERO } else { Duration::from_secs(86_400) }).into_iter().collect();
                let want: BTreeSet<u64> = if *all { prepared.keys().copied().collect() } else { BTreeSet::new() };
                if out != want {
                    ctx.fail("participant-stale-set", format!("cleanup_stale returned {out:?}, prepared transactions past the timeout: {want:?}"))?;
                }
                if *all {
                    for id in &want {
                        m.release_tx(*id);
                        if let Some(msg) = residue_locks(&p, *id) {
                            ctx.fail("participant-lock-left:stale", format!("transaction {id} timed out but {msg}"))?;
                        }
                    }
                    if !want.is_empty() {
                        ctx.label("finished by stale timeout");
                    }
                    prepared.clear();
                }
            },
        }
        check_tables(&m, &p.locks, &txs, ctx)?;
    }
    if refused {
        ctx.set_nontrivial();
    }
    Ok(())
}
