//! Reference lock table and the common state comparison used by the `locks`, `coord`, `participant`
//! and `expiry` parts.

use crate::dg::{check_detect_cycles, Dg, IdMap};
use nv_engine::{CaseCtx, Fail};
use std::collections::{BTreeMap, BTreeSet};
use tensor_chain::deadlock::WaitForGraph;
use tensor_chain::distributed_tx::LockManager;

pub const NKEYS: u8 = 5;

pub fn key(k: u8) -> String {
    format!("k{}", k % NKEYS)
}

pub fn keys_of(ks: &[u8]) -> Vec<String> {
    ks.iter().map(|k| key(*k)).collect()
}

#[derive(Default, Clone, Debug)]
pub struct LockModel {
    /// key -> (holder, handle of the grant that last covered the key)
    pub held: BTreeMap<u8, (u64, u64)>,
    /// wait-for edges that may legitimately be present (added by a refusal, never required to stay)
    pub upper: BTreeSet<(u64, u64)>,
    pub handles_seen: BTreeSet<u64>,
}

impl LockModel {
    pub fn blockers(&self, tx: u64, ks: &[u8]) -> BTreeSet<u64> {
        ks.iter().filter_map(|k| self.held.get(&(k % NKEYS))).filter(|(t, _)| *t != tx).map(|(t, _)| *t).collect()
    }
    pub fn conflicting(&self, tx: u64, ks: &[u8]) -> BTreeSet<u8> {
        ks.iter().map(|k| k % NKEYS).filter(|k| self.held.get(k).is_some_and(|(t, _)| *t != tx)).collect()
    }
    pub fn grant(&mut self, tx: u64, ks: &[u8], handle: u64) {
        for k in ks {
            self.held.insert(k % NKEYS, (tx, handle));
        }
    }
    pub fn keys_held_by(&self, tx: u64) -> BTreeSet<u8> {
        self.held.iter().filter(|(_, (t, _))| *t == tx).map(|(k, _)| *k).collect()
    }
    pub fn release_tx(&mut self, tx: u64) {
        self.held.retain(|_, (t, _)| *t != tx);
    }
    /// Releases the keys last granted under `handle`; returns their owner if there was any.
    pub fn release_handle(&mut self, handle: u64) -> Option<u64> {
        let owner = self.held.values().find(|(_, h)| *h == handle).map(|(t, _)| *t);
        self.held.retain(|_, (_, h)| *h != handle);
        owner
    }
    pub fn drop_edges_of(&mut self, tx: u64) {
        self.upper.retain(|(a, b)| *a != tx && *b != tx);
    }
    pub fn live_handles(&self) -> Vec<u64> {
        let s: BTreeSet<u64> = self.held.values().map(|(_, h)| *h).collect();
        s.into_iter().collect()
    }
}

/// A granted handle must be new.
pub fn check_fresh_handle(m: &mut LockModel, h: u64, ctx: &mut CaseCtx) -> Result<(), Fail> {
    if !m.handles_seen.insert(h) {
        ctx.fail("handle-reused", format!("lock handle {h} was handed out twice"))?;
    }
    Ok(())
}

/// All-or-nothing on refusal: no requested key may have become the requester's.
pub fn check_no_partial_grant(m: &LockModel, lm: &LockManager, tx: u64, ks: &[u8], ctx: &mut CaseCtx, what: &str) -> Result<(), Fail> {
    let before = m.keys_held_by(tx);
    for k in ks {
        let k = k % NKEYS;
        if !before.contains(&k) && lm.lock_holder(&key(k)) == Some(tx) {
            ctx.fail(
                "partial-grant-on-refusal",
                format!("{what}: request of tx {tx} for {ks:?} was refused but key k{k} is now held by it (all-or-nothing broken)"),
            )?;
        }
    }
    let after: BTreeSet<String> = lm.keys_for_transaction(tx).into_iter().collect();
    let want: BTreeSet<String> = before.iter().map(|k| key(*k)).collect();
    if after != want {
        ctx.fail(
            "partial-grant-on-refusal",
            format!("{what}: request of tx {tx} for {ks:?} was refused but keys_for_transaction changed from {want:?} to {after:?}"),
        )?;
    }
    Ok(())
}

/// Compare every observable of the lock table with the model.
pub fn check_tables(m: &LockModel, lm: &LockManager, txs: &[u64], ctx: &mut CaseCtx) -> Result<(), Fail> {
    for k in 0..NKEYS {
        let got = lm.lock_holder(&key(k));
        let want = m.held.get(&k).map(|(t, _)| *t);
        if got != want {
            let sig = match (got, want) {
                (Some(_), None) => "lock-present-unexpected",
                (None, Some(_)) => "lock-missing",
                _ => "lock-owner-wrong",
            };
            ctx.fail(sig, format!("lock_holder(k{k}) = {got:?}, reference table says {want:?}"))?;
        }
        if lm.is_locked(&key(k)) != got.is_some() {
            ctx.fail("is-locked-disagrees", format!("is_locked(k{k}) disagrees with lock_holder = {got:?}"))?;
        }
    }
    for tx in txs {
        let got: BTreeSet<String> = lm.keys_for_transaction(*tx).into_iter().collect();
        let want: BTreeSet<String> = m.keys_held_by(*tx).iter().map(|k| key(*k)).collect();
        if got != want {
            let sig = if got.len() > want.len() { "tx-index-stale-key" } else { "tx-index-missing-key" };
            ctx.fail(sig, format!("keys_for_transaction({tx}) = {got:?}, reference table says {want:?}"))?;
        }
    }
    if lm.active_lock_count() != m.held.len() {
        ctx.fail("lock-count-mismatch", format!("active_lock_count() = {}, reference table has {}", lm.active_lock_count(), m.held.len()))?;
    }
    Ok(())
}

/// Recorded relations as seen through the accessors; they must stay within `upper`, forward and reverse
/// views must agree, and the cycle detector must agree with the independent oracle on exactly these edges.
pub fn check_graph(m: &LockModel, wg: &WaitForGraph, txs: &[u64], ctx: &mut CaseCtx) -> Result<Dg, Fail> {
    let ids = IdMap::new(txs.to_vec());
    let mut g = Dg::new(txs.len());
    for (i, t) in txs.iter().enumerate() {
        for h in wg.waiting_for(*t) {
            match ids.index.get(&h) {
                Some(j) => g.add(i, *j),
                None => ctx.fail("unexpected-wait-edge", format!("wait-for edge {t} -> {h} names an unknown transaction"))?,
            }
            if !m.upper.contains(&(*t, h)) {
                ctx.fail("unexpected-wait-edge", format!("wait-for edge {t} -> {h} is present but no refusal of {t} against {h} justifies it (or an endpoint has finished)"))?;
            }
        }
    }
    for (j, t) in txs.iter().enumerate() {
        let on: BTreeSet<u64> = wg.waiting_on(*t).into_iter().collect();
        let want: BTreeSet<u64> = (0..txs.len()).filter(|i| g.has(*i, j)).map(|i| txs[i]).collect();
        if on != want {
            ctx.fail("graph-forward-reverse-disagree", format!("waiting_on({t}) = {on:?} but the forward edges say {want:?}"))?;
        }
    }
    let cycles = wg.detect_cycles();
    check_detect_cycles(&g, &ids, &cycles, ctx)?;
    let reach = g.closure();
    for a in 0..g.n {
        for b in 0..g.n {
            let want = a == b || reach[b] & (1 << a) != 0;
            let got = wg.would_create_cycle(txs[a], txs[b]);
            if got != want {
                let sig = if got { "would-create-cycle-false-positive" } else { "would-create-cycle-false-negative" };
                ctx.fail(sig, format!("would_create_cycle({}, {}) = {got}, oracle says {want}; adj={:?} txs={txs:?}", txs[a], txs[b], g.adj))?;
            }
        }
    }
    Ok(g)
}

/// After a transaction has finished it must hold nothing and appear nowhere in the wait-for graph.
/// Returns the list of (what) problems found as signatures-with-messages; the caller decides the signature suffix.
pub fn residue_of(lm: &LockManager, wg: &WaitForGraph, tx: u64, others: &[u64]) -> Vec<(&'static str, String)> {
    let mut out = Vec::new();
    let mut locked = Vec::new();
    for k in 0..NKEYS {
        if lm.lock_holder(&key(k)) == Some(tx) {
            locked.push(format!("k{k}"));
        }
    }
    if !locked.is_empty() {
        out.push(("lock-left", format!("still holds {locked:?}")));
    }
    let idx = lm.keys_for_transaction(tx);
    if !idx.is_empty() && locked.is_empty() {
        out.push(("index-left", format!("keys_for_transaction still lists {idx:?}")));
    }
    let wf = wg.waiting_for(tx);
    if !wf.is_empty() {
        let mut v: Vec<u64> = wf.into_iter().collect();
        v.sort_unstable();
        out.push(("waiter-left", format!("still recorded as waiting for {v:?}")));
    }
    let mut waited: BTreeSet<u64> = wg.waiting_on(tx).into_iter().collect();
    for o in others {
        if *o != tx && wg.waiting_for(*o).contains(&tx) {
            waited.insert(*o);
        }
    }
    if !waited.is_empty() {
        out.push(("holder-left", format!("still recorded as awaited by {waited:?}")));
    }
    out
}
