//! C11 — Concurrent store operations behave as if executed one at a time.
//!
//! * `lin`      2–8 scripted threads of put/get/delete/exists/scan on ≤ 3 contended keys per key
//!              class run under the deterministic scheduler (yield points inside the
//!              embedding-class put/get/delete and at operation boundaries); the recorded history
//!              must be linearizable against a sequential map (WGL search, per key when the
//!              history has no scan).
//! * `durable`  scripted threads of put_durable/delete_durable with a yield point between "logged"
//!              and "applied"; at quiescence recovering from a copy of the log must give the
//!              in-memory state (durable order = memory order).
//! * `stress`   real threads, history stamped from one atomic counter, same checker.

use nv_engine::{main_for, sched, CaseCtx, CustomPart, Fail, PropDef, PropPart, Tier, Violation};
use proptest::prelude::*;
use serde::{Deserialize, Serialize};
use std::collections::{BTreeMap, BTreeSet, HashSet};
use std::sync::atomic::{AtomicU64, Ordering};
use std::sync::{Arc, Mutex};
use std::time::Duration;
use tensor_store::wal::WalConfig;
use tensor_store::{ScalarValue, TensorData, TensorStore, TensorValue};

const CLASSES: [&str; 5] = ["plain", "emb:", "node:", "table:", "_cache:"];

fn key_name(class: u8, k: u8) -> String {
    let c = CLASSES[class as usize % CLASSES.len()];
    if c == "plain" {
        format!("k{k}")
    } else {
        format!("{c}{k}")
    }
}

/// Every written value is unique (its tag); for embedding keys every vector component and a
/// sibling scalar field carry the tag, so a mixture of two writes is recognisable.
fn value(key: &str, tag: u32) -> TensorData {
    let mut d = TensorData::new();
    d.set("tag", TensorValue::Scalar(ScalarValue::Int(i64::from(tag))));
    if key.starts_with("emb:") {
        // the shape of the value is a function of the tag: no vector at all, a vector the
        // embedding slab refuses (kept in metadata only), or a slab-dimension vector
        match emb_len(tag) {
            0 => {},
            n => d.set("_embedding", TensorValue::Vector(vec![tag as f32; n])),
        }
    }
    d
}

fn emb_len(tag: u32) -> usize {
    match tag % 5 {
        0 => 0,
        1 => 3,
        _ => 384,
    }
}

/// Decode a read value into its tag; `Err` describes a value nobody wrote.
fn read_tag(key: &str, d: &TensorData) -> Result<u32, String> {
    let t = match d.get("tag") {
        Some(TensorValue::Scalar(ScalarValue::Int(t))) => *t as u32,
        other => return Err(format!("field 'tag' is {other:?}")),
    };
    if key.starts_with("emb:") {
        match d.get("_embedding") {
            Some(TensorValue::Vector(v)) => {
                if v.is_empty() || v.iter().any(|x| *x != v[0]) {
                    return Err(format!("vector of length {} is not uniform", v.len()));
                }
                if v[0] != t as f32 {
                    return Err(format!("scalar field says write {t} but the vector is from write {}", v[0]));
                }
                if v.len() != emb_len(t) {
                    return Err(format!("write {t} carried a vector of length {} but a vector of length {} came back", emb_len(t), v.len()));
                }
            },
            None if emb_len(t) == 0 => {},
            other => return Err(format!("scalar field says write {t} (vector length {}) but '_embedding' is {:?}", emb_len(t), other.map(|_| "not a vector"))),
        }
    }
    Ok(t)
}

#[derive(Clone, Debug, Serialize, Deserialize)]
enum Op {
    Put(u8),
    Get(u8),
    Delete(u8),
    Exists(u8),
    Scan,
    /// durable part only: checkpoint (snapshot + marker + log truncation) next to the writers
    Checkpoint,
}

#[derive(Clone, Debug, Serialize, Deserialize)]
struct Case {
    class: u8,
    keys: u8,
    scripts: Vec<Vec<Op>>,
    schedule: Vec<u16>,
}

fn case_strategy(t: Tier, with_reads: bool) -> impl Strategy<Value = Case> {
    let max_threads = t.pick(5usize, 8usize);
    (prop_oneof![3 => Just(1u8), 1 => Just(0u8), 1 => Just(2u8), 1 => Just(3u8), 1 => Just(4u8)], 1u8..=3).prop_flat_map(move |(class, keys)| {
        let op = if with_reads {
            prop_oneof![
                5 => (0..keys).prop_map(Op::Put),
                5 => (0..keys).prop_map(Op::Get),
                2 => (0..keys).prop_map(Op::Delete),
                1 => (0..keys).prop_map(Op::Exists),
                1 => Just(Op::Scan),
            ]
            .boxed()
        } else {
            prop_oneof![8 => (0..keys).prop_map(Op::Put), 2 => (0..keys).prop_map(Op::Delete), 1 => Just(Op::Checkpoint)].boxed()
        };
        (
            Just(class),
            Just(keys),
            prop::collection::vec(prop::collection::vec(op, 1..=5), 2..=max_threads),
            prop::collection::vec(any::<u16>(), 0..80),
        )
    })
    .prop_map(|(class, keys, scripts, schedule)| Case { class, keys, scripts, schedule })
}

// ------------------------------------------------------------------ history + checker

#[derive(Clone, Debug, PartialEq)]
enum Res {
    Done,
    Value(Option<u32>),
    Torn(String),
    DeleteOk(bool),
    /// diagnosis only: a delete whose success flag is ignored
    DeleteAny,
    Bool(bool),
    Keys(BTreeSet<u8>),
}

#[derive(Clone, Debug)]
struct Ev {
    thread: usize,
    op: Op,
    tag: u32,
    inv: u64,
    resp: u64,
    res: Res,
}

type State = Vec<Option<u32>>;

fn step(state: &State, e: &Ev) -> Option<State> {
    match (&e.op, &e.res) {
        (Op::Put(k), Res::Done) => {
            let mut s = state.clone();
            s[*k as usize] = Some(e.tag);
            Some(s)
        },
        (Op::Get(k), Res::Value(v)) => (state[*k as usize] == *v).then(|| state.clone()),
        (Op::Get(_), Res::Torn(_)) => None,
        (Op::Delete(k), Res::DeleteOk(ok)) => {
            if *ok != state[*k as usize].is_some() {
                return None;
            }
            let mut s = state.clone();
            s[*k as usize] = None;
            Some(s)
        },
        (Op::Delete(k), Res::DeleteAny) => {
            let mut s = state.clone();
            s[*k as usize] = None;
            Some(s)
        },
        (Op::Exists(k), Res::Bool(b)) => (*b == state[*k as usize].is_some()).then(|| state.clone()),
        (Op::Checkpoint, _) => Some(state.clone()),
        (Op::Scan, Res::Keys(ks)) => {
            let live: BTreeSet<u8> = state.iter().enumerate().filter(|(_, v)| v.is_some()).map(|(i, _)| i as u8).collect();
            (live == *ks).then(|| state.clone())
        },
        _ => None,
    }
}

/// WGL-style search: is there a total order consistent with real time in which every result is
/// what a sequential map would return?
fn linearizable(evs: &[Ev], init: &State) -> bool {
    fn rec(evs: &[Ev], done: u64, state: &State, memo: &mut HashSet<(u64, State)>) -> bool {
        if done.count_ones() as usize == evs.len() {
            return true;
        }
        if !memo.insert((done, state.clone())) {
            return false;
        }
        // an op may go next if no other pending op responded before it was invoked
        let min_resp = evs.iter().enumerate().filter(|(i, _)| done & (1 << i) == 0).map(|(_, e)| e.resp).min().unwrap();
        for (i, e) in evs.iter().enumerate() {
            if done & (1 << i) != 0 || e.inv > min_resp {
                continue;
            }
            if let Some(s2) = step(state, e) {
                if rec(evs, done | (1 << i), &s2, memo) {
                    return true;
                }
            }
        }
        false
    }
    assert!(evs.len() <= 64);
    rec(evs, 0, init, &mut HashSet::new())
}

fn key_of(op: &Op) -> Option<u8> {
    match op {
        Op::Put(k) | Op::Get(k) | Op::Delete(k) | Op::Exists(k) => Some(*k),
        Op::Scan | Op::Checkpoint => None,
    }
}

fn check_history(evs: &[Ev], keys: u8, ctx: &mut CaseCtx, class: &str) -> Result<(), Fail> {
    // direct corollaries first, for better messages
    let written: BTreeSet<u32> = evs.iter().filter(|e| matches!(e.op, Op::Put(_))).map(|e| e.tag).collect();
    for e in evs {
        match &e.res {
            Res::Torn(why) => {
                ctx.fail(format!("torn-read:{class}"), format!("thread {} get({:?}) returned a value no put wrote: {why}", e.thread, e.op))?;
            },
            Res::Value(Some(t)) if !written.contains(t) => {
                ctx.fail(format!("read-of-unwritten-value:{class}"), format!("thread {} read tag {t} that no put wrote", e.thread))?;
            },
            _ => {},
        }
    }
    if ctx.known_hit() {
        return Ok(());
    }
    let init: State = vec![None; keys as usize];
    let has_scan = evs.iter().any(|e| matches!(e.op, Op::Scan));
    let ok = if has_scan {
        linearizable(evs, &init)
    } else {
        (0..keys).all(|k| {
            let sub: Vec<Ev> = evs.iter().filter(|e| key_of(&e.op) == Some(k)).cloned().collect();
            linearizable(&sub, &init)
        })
    };
    if !ok {
        // diagnosis: does the history become explainable if a delete may report success although the
        // key was already gone (check-then-remove is not atomic)?
        let relaxed: Vec<Ev> = evs
            .iter()
            .map(|e| {
                let mut e = e.clone();
                if matches!(e.res, Res::DeleteOk(true)) {
                    e.res = Res::DeleteAny;
                }
                e
            })
            .collect();
        let ok_relaxed = if has_scan {
            linearizable(&relaxed, &init)
        } else {
            (0..keys).all(|k| {
                let sub: Vec<Ev> = relaxed.iter().filter(|e| key_of(&e.op) == Some(k)).cloned().collect();
                linearizable(&sub, &init)
            })
        };
        if ok_relaxed {
            return ctx.fail(
                format!("delete-success-reported-twice:{class}"),
                "two overlapping delete calls on one key both returned Ok although only one of them can have removed it (the existence check and the removal are not atomic)",
            );
        }
        let mut sorted: Vec<&Ev> = evs.iter().collect();
        sorted.sort_by_key(|e| e.inv);
        let text: Vec<String> = sorted.iter().map(|e| format!("t{} {:?}#{} [{}..{}] -> {:?}", e.thread, e.op, e.tag, e.inv, e.resp, e.res)).collect();
        let kinds: BTreeSet<&str> = evs
            .iter()
            .map(|e| match e.op {
                Op::Put(_) => "put",
                Op::Get(_) => "get",
                Op::Delete(_) => "delete",
                Op::Exists(_) => "exists",
                Op::Scan => "scan",
                Op::Checkpoint => "checkpoint",
            })
            .collect();
        ctx.fail(
            format!("not-linearizable:{class}:{}", kinds.into_iter().collect::<Vec<_>>().join("+")),
            format!("no sequential order of these operations explains their results: {}", text.join(" | ")),
        )?;
    }
    Ok(())
}

fn overlapping_write(evs: &[Ev]) -> bool {
    for (i, a) in evs.iter().enumerate() {
        for b in &evs[i + 1..] {
            let same_key = key_of(&a.op).is_some() && key_of(&a.op) == key_of(&b.op);
            let overlap = a.inv < b.resp && b.inv < a.resp;
            let write = matches!(a.op, Op::Put(_) | Op::Delete(_)) || matches!(b.op, Op::Put(_) | Op::Delete(_));
            if same_key && overlap && write && a.thread != b.thread {
                return true;
            }
        }
    }
    false
}

// ------------------------------------------------------------------ running scripts

struct Run {
    /// where `Op::Checkpoint` writes its snapshot (durable part)
    snap: Option<std::path::PathBuf>,
    store: TensorStore,
    clock: AtomicU64,
    tags: AtomicU64,
    log: Mutex<Vec<Ev>>,
}

fn do_op(r: &Run, thread: usize, class: u8, keys: u8, op: &Op, durable: bool) {
    let tag = r.tags.fetch_add(1, Ordering::SeqCst) as u32 + 1;
    let inv = r.clock.fetch_add(1, Ordering::SeqCst);
    let res = match op {
        Op::Put(k) => {
            let key = key_name(class, *k);
            let v = value(&key, tag);
            let ok = if durable { r.store.put_durable(key, v).is_ok() } else { r.store.put(key, v).is_ok() };
            if ok { Res::Done } else { Res::Torn("put failed".into()) }
        },
        Op::Get(k) => {
            let key = key_name(class, *k);
            match r.store.get(&key) {
                Ok(d) => match read_tag(&key, &d) {
                    Ok(t) => Res::Value(Some(t)),
                    Err(why) => Res::Torn(why),
                },
                Err(_) => Res::Value(None),
            }
        },
        Op::Delete(k) => {
            let key = key_name(class, *k);
            let ok = if durable { r.store.delete_durable(&key).is_ok() } else { r.store.delete(&key).is_ok() };
            Res::DeleteOk(ok)
        },
        Op::Exists(k) => Res::Bool(r.store.exists(&key_name(class, *k))),
        Op::Checkpoint => {
            if let Some(p) = &r.snap {
                let _ = r.store.checkpoint(p);
            }
            Res::Done
        },
        Op::Scan => {
            let prefix = { let c = CLASSES[class as usize % CLASSES.len()]; if c == "plain" { "k".to_string() } else { c.to_string() } };
            let found: BTreeSet<String> = r.store.scan(&prefix).into_iter().collect();
            Res::Keys((0..keys).filter(|k| found.contains(&key_name(class, *k))).collect())
        },
    };
    let resp = r.clock.fetch_add(1, Ordering::SeqCst);
    r.log.lock().unwrap().push(Ev { thread, op: op.clone(), tag, inv, resp, res });
}

fn lin_check(c: &Case, ctx: &mut CaseCtx) -> Result<(), Fail> {
    let class = CLASSES[c.class as usize % CLASSES.len()];
    // every other case runs on a store with a Bloom filter in front of get / exists (scan reads the
    // slabs directly): filter and slabs must never be seen out of step
    let bloom = c.schedule.first().is_some_and(|x| x & 1 == 1);
    let store = if bloom { TensorStore::with_bloom_filter(1024, 0.01) } else { TensorStore::new() };
    if bloom {
        ctx.label("store with a Bloom filter");
    }
    let run = Arc::new(Run { snap: None, store, clock: AtomicU64::new(0), tags: AtomicU64::new(0), log: Mutex::new(Vec::new()) });
    let mut scripts: Vec<Box<dyn FnOnce() + Send>> = Vec::new();
    for (ti, script) in c.scripts.iter().enumerate() {
        let (run, script, class_i, keys) = (run.clone(), script.clone(), c.class, c.keys);
        scripts.push(Box::new(move || {
            for op in &script {
                sched::op_boundary();
                do_op(&run, ti, class_i, keys, op, false);
            }
        }));
    }
    let report = sched::run(scripts, &c.schedule, &["store.emb.put", "store.emb.get", "store.emb.del", "store.delete.checked", "store.meta.get", "store.meta.set", "store.meta.del", "store.put.applied", "store.cache.put.checked", "store.cache.put.slot", "store.cache.del.unindexed", "store.cache.get.indexed"], Duration::from_millis(60));
    if let Some((t, m)) = report.panics.first() {
        ctx.fail("panic-in-thread", format!("thread {t} panicked: {m}"))?;
    }
    let evs = run.log.lock().unwrap().clone();
    ctx.label(format!("class {class}"));
    if evs.iter().any(|e| matches!(e.op, Op::Scan)) {
        ctx.label("history with scan");
    }
    if overlapping_write(&evs) {
        ctx.label("overlapping operations on one key, one a write");
        ctx.set_nontrivial();
    }
    if evs.len() > 40 {
        return Ok(());
    }
    check_history(&evs, c.keys, ctx, class)
}

// ------------------------------------------------------------------ durable order

fn observe(store: &TensorStore) -> BTreeMap<String, Vec<(String, Vec<u8>)>> {
    let mut st = BTreeMap::new();
    let mut keys = store.scan("");
    keys.sort();
    for k in keys {
        if k.starts_with("_cache:") {
            continue;
        }
        if let Ok(d) = store.get(&k) {
            let mut f: Vec<(String, Vec<u8>)> = d.fields_iter().map(|(n, v)| (n.clone(), bitcode::serialize(v).unwrap_or_default())).collect();
            f.sort();
            st.insert(k, f);
        }
    }
    st
}

fn durable_check(c: &Case, ctx: &mut CaseCtx) -> Result<(), Fail> {
    let class_i = if c.class as usize % CLASSES.len() == 4 { 0 } else { c.class }; // cache keys are not durable
    let class = CLASSES[class_i as usize % CLASSES.len()];
    let dir = nv_engine::scratch::Dir::new("c11");
    let wal = dir.join("store.wal");
    let store = TensorStore::open_durable(&wal, WalConfig::default()).map_err(|e| Fail::new("harness", e.to_string()))?;
    let snap = dir.join("store.snap");
    let run = Arc::new(Run { snap: Some(snap.clone()), store, clock: AtomicU64::new(0), tags: AtomicU64::new(0), log: Mutex::new(Vec::new()) });
    let mut scripts: Vec<Box<dyn FnOnce() + Send>> = Vec::new();
    for (ti, script) in c.scripts.iter().enumerate() {
        let (run, script, keys) = (run.clone(), script.clone(), c.keys);
        scripts.push(Box::new(move || {
            for op in &script {
                sched::op_boundary();
                do_op(&run, ti, class_i, keys, op, true);
            }
        }));
    }
    let report = sched::run(scripts, &c.schedule, &["store.durable.logged", "store.durable.unlocked", "store.ckpt.snapshot_written"], Duration::from_millis(60));
    if let Some((t, m)) = report.panics.first() {
        ctx.fail("panic-in-thread", format!("thread {t} panicked: {m}"))?;
    }
    ctx.label(format!("class {class}"));
    let evs = run.log.lock().unwrap().clone();
    if overlapping_write(&evs) {
        ctx.label("overlapping durable writes to one key");
        ctx.set_nontrivial();
    }
    let mem = observe(&run.store);
    let copy = dir.join("copy.wal");
    std::fs::copy(&wal, &copy).map_err(|e| Fail::new("harness", e.to_string()))?;
    // what a crash right now leaves: the last checkpoint's snapshot (if any) and the log
    let snap_copy = dir.join("copy.snap");
    let with_snap = snap.exists();
    if with_snap {
        std::fs::copy(&snap, &snap_copy).map_err(|e| Fail::new("harness", e.to_string()))?;
        ctx.label("a checkpoint ran next to the writers");
        if report.trace.iter().any(|(_, s)| *s == "store.ckpt.snapshot_written") {
            ctx.label("threads switched between the snapshot and the log truncation of a checkpoint");
            ctx.set_nontrivial();
        }
    }
    let rec = TensorStore::recover(&copy, &WalConfig::default(), with_snap.then_some(snap_copy.as_path())).map_err(|e| Fail::new("recover-failed", format!("recover of a cleanly written log failed: {e}")))?;
    let disk = observe(&rec);
    // A checkpoint stores slab-dimension vectors in their compressed form (tensor train for dense
    // ones: within a tolerance, C07's subject). Around a checkpoint, embedding keys are therefore
    // compared by the write they hold (the `tag` scalar every value carries), not bit by bit.
    let by_tag = |st: &TensorStore| -> BTreeMap<String, Option<i64>> {
        let mut m = BTreeMap::new();
        let mut keys = st.scan("");
        keys.sort();
        for k in keys {
            if k.starts_with("_cache:") {
                continue;
            }
            if let Ok(d) = st.get(&k) {
                let t = match d.get("tag") {
                    Some(TensorValue::Scalar(ScalarValue::Int(t))) => Some(*t),
                    _ => None,
                };
                m.insert(k, t);
            }
        }
        m
    };
    let differs = if with_snap && class == "emb:" { by_tag(&run.store) != by_tag(&rec) } else { mem != disk };
    if differs {
        let k = mem.keys().chain(disk.keys()).find(|k| mem.get(*k) != disk.get(*k)).cloned().unwrap_or_default();
        let tag = |s: &BTreeMap<String, Vec<(String, Vec<u8>)>>| s.get(&k).map(|_| "present").unwrap_or("absent");
        ctx.fail(
            if with_snap { format!("durable-state-lost-around-checkpoint:{class}") } else { format!("durable-order-differs:{class}") },
            format!("after all threads finished, key {k:?} is {} in memory and {} after recovering from the log (or holds a different write): the log order is not the order in which the writes took effect", tag(&mem), tag(&disk)),
        )?;
    }
    Ok(())
}

// ------------------------------------------------------------------ stress

fn stress_part() -> CustomPart {
    CustomPart {
        name: "stress",
        run: Box::new(|cfg, findings, stats| {
            let rounds = cfg.cases(40, 2000);
            for r in 0..rounds {
                let class = (r % 5) as u8;
                let threads = 2 + (r as usize / 5) % 7;
                let run = Arc::new(Run { snap: None, store: TensorStore::new(), clock: AtomicU64::new(0), tags: AtomicU64::new(0), log: Mutex::new(Vec::new()) });
                let barrier = Arc::new(std::sync::Barrier::new(threads));
                let hs: Vec<_> = (0..threads)
                    .map(|t| {
                        let (run, barrier) = (run.clone(), barrier.clone());
                        std::thread::spawn(move || {
                            barrier.wait();
                            for k in 0..4usize {
                                // deterministic script: writers and readers alternate on one key
                                let op = match (t + k) % 4 {
                                    0 => Op::Put(0),
                                    1 => Op::Get(0),
                                    2 => Op::Put(0),
                                    _ => if t % 3 == 0 { Op::Delete(0) } else { Op::Get(0) },
                                };
                                do_op(&run, t, class, 1, &op, false);
                            }
                        })
                    })
                    .collect();
                for h in hs {
                    let _ = h.join();
                }
                let evs = run.log.lock().unwrap().clone();
                stats.evaluations += 1;
                if overlapping_write(&evs) {
                    stats.nontrivial.insert(nv_engine::fnv64(format!("{r}").as_bytes()));
                }
                let mut ctx = CaseCtx::new(findings, false);
                let res = check_history(&evs, 1, &mut ctx, CLASSES[class as usize]);
                if ctx.known_hit() {
                    stats.excluded("known (see other parts)");
                }
                if stats.samples.is_empty() {
                    stats.sample(serde_json::json!({"threads": threads, "class": CLASSES[class as usize], "ops": evs.len()}));
                }
                if let Err(f) = res {
                    let case = serde_json::json!({"history": format!("{evs:?}")});
                    let path = nv_engine::runner::write_replay(cfg, "stress", &f, &case);
                    return Some(Violation { part: "stress".into(), sig: f.sig, msg: f.msg, replay: path });
                }
            }
            None
        }),
        replay: Box::new(|_case, _f, _s| Err(Fail::new("stress-history", "recorded real-thread history (see msg in the replay file); not re-executable"))),
    }
}

// ------------------------------------------------------------------ sequential prefix scans

#[derive(Clone, Debug, Serialize, Deserialize)]
struct ScanCase {
    keys: Vec<Vec<u8>>,
    /// (index of the key a prefix is cut from, number of characters) or a free-standing string
    prefixes: Vec<(Option<(u8, u8)>, Vec<u8>)>,
}

/// Characters whose UTF-8 encoding ends in 0x7F / 0xBF (the byte after them is no valid
/// continuation of the same length), their neighbours, and plain ASCII.
const SCAN_CHARS: [char; 14] = ['a', 'b', 'x', 'z', '\u{7f}', '\u{80}', '\u{bf}', '\u{c0}', '\u{ff}', '\u{100}', '\u{208}', '\u{7ff}', '\u{800}', '\u{ffff}'];

fn scan_string(codes: &[u8]) -> String {
    codes.iter().map(|c| SCAN_CHARS[*c as usize % SCAN_CHARS.len()]).collect()
}

fn scan_strategy(_t: Tier) -> impl Strategy<Value = ScanCase> {
    let word = || prop::collection::vec(0u8..SCAN_CHARS.len() as u8, 1..4);
    (
        prop::collection::vec(word(), 1..10),
        prop::collection::vec((prop::option::weighted(0.6, (any::<u8>(), 1u8..3)), word()), 1..6),
    )
        .prop_map(|(keys, prefixes)| ScanCase { keys, prefixes })
}

/// One thread, no interleaving: a prefix scan (and its count) returns exactly the stored keys that
/// start with the prefix - the sequential behaviour every concurrent history is measured against.
fn scan_seq_check(c: &ScanCase, ctx: &mut CaseCtx) -> Result<(), Fail> {
    let store = TensorStore::new();
    let mut keys: BTreeSet<String> = BTreeSet::new();
    for (i, k) in c.keys.iter().enumerate() {
        let key = scan_string(k);
        store.put(&key, value(&key, i as u32)).map_err(|e| Fail::new("harness", e.to_string()))?;
        keys.insert(key);
    }
    let all: Vec<&String> = keys.iter().collect();
    for (cut, free) in &c.prefixes {
        let prefix: String = match cut {
            Some((i, n)) => all[*i as usize % all.len()].chars().take(*n as usize).collect(),
            None => scan_string(free),
        };
        let want: BTreeSet<String> = keys.iter().filter(|k| k.starts_with(&prefix)).cloned().collect();
        let got: BTreeSet<String> = store.scan(&prefix).into_iter().collect();
        let last = prefix.as_bytes().last().copied().unwrap_or(0);
        if last == 0x7f || last == 0xbf {
            ctx.label("prefix whose last byte has no same-length successor");
            if keys.iter().any(|k| !k.starts_with(&prefix) && k.as_str() > prefix.as_str() && k.as_bytes()[0] >> 4 == prefix.as_bytes()[0] >> 4) {
                ctx.set_nontrivial();
            }
        }
        if got != want {
            let extra: Vec<&String> = got.difference(&want).collect();
            let missing: Vec<&String> = want.difference(&got).collect();
            let kind = if !extra.is_empty() { "returns-non-matching-keys" } else { "misses-matching-keys" };
            ctx.fail(format!("scan-seq:{kind}"), format!("scan({prefix:?}) over {keys:?}: extra {extra:?}, missing {missing:?}"))?;
        }
        let n = store.scan_count(&prefix);
        if n != want.len() {
            ctx.fail("scan-seq:count", format!("scan_count({prefix:?}) = {n}, {} keys start with it ({keys:?})", want.len()))?;
        }
    }
    Ok(())
}

/// Real threads writing MANY DISTINCT keys of one class at once (first-time puts, overwrites, a
/// few deletes), then a sequential read-back: what a key holds must be the last value its only
/// writer gave it. Writes to different keys share allocators (embedding slots, cache slots, shard
/// maps); a slot handed out twice shows up as one key reading another key's value.
fn stress_many_part() -> CustomPart {
    CustomPart {
        name: "stress_many",
        run: Box::new(|cfg, findings, stats| {
            let rounds = cfg.cases(30, 400);
            let per = 1200usize;
            for r in 0..rounds {
                // embedding keys in 4 rounds out of 6 (the class with its own slot allocator)
                let class: u8 = [1, 1, 0, 1, 3, 1][r as usize % 6];
                let threads = 4 + (r as usize % 5);
                let store = TensorStore::new();
                let barrier = Arc::new(std::sync::Barrier::new(threads));
                let hs: Vec<_> = (0..threads)
                    .map(|t| {
                        let (store, barrier) = (store.clone(), barrier.clone());
                        std::thread::spawn(move || {
                            barrier.wait();
                            // (key, tag of the last put or None after a delete)
                            let mut last: Vec<(String, Option<u32>)> = Vec::with_capacity(per);
                            for k in 0..per {
                                let key = format!("{}t{t}:{k}", if CLASSES[class as usize] == "plain" { "k" } else { CLASSES[class as usize] });
                                // tags are unique per (thread, key, version); every fifth has no / an off-size vector
                                let tag = ((t * per + k) * 4) as u32;
                                let _ = store.put(&key, value(&key, tag));
                                let mut fin = Some(tag);
                                if k % 7 == 3 {
                                    let _ = store.put(&key, value(&key, tag + 1));
                                    fin = Some(tag + 1);
                                }
                                if k % 11 == 5 {
                                    let _ = store.delete(&key);
                                    fin = None;
                                }
                                last.push((key, fin));
                            }
                            last
                        })
                    })
                    .collect();
                let mut all: Vec<(String, Option<u32>)> = Vec::new();
                for h in hs {
                    all.extend(h.join().unwrap_or_default());
                }
                stats.evaluations += 1;
                stats.nontrivial.insert(nv_engine::fnv64(format!("many{r}").as_bytes()));
                let mut wrong: Vec<String> = Vec::new();
                for (key, want) in &all {
                    let got = store.get(key).ok();
                    let verdict = match (want, got) {
                        (None, None) => None,
                        (None, Some(_)) => Some("deleted by its only writer but present".to_string()),
                        (Some(t), None) => Some(format!("written (tag {t}) by its only writer but absent")),
                        (Some(t), Some(d)) => match read_tag(key, &d) {
                            Ok(g) if g == *t => None,
                            Ok(g) => Some(format!("last written with tag {t} but holds tag {g}")),
                            Err(e) => Some(format!("last written with tag {t} but holds a value nobody wrote to it: {e}")),
                        },
                    };
                    if let Some(v) = verdict {
                        if wrong.len() < 4 {
                            wrong.push(format!("{key}: {v}"));
                        } else {
                            wrong.push(String::new());
                        }
                    }
                }
                if stats.samples.len() < 2 {
                    stats.sample(serde_json::json!({"part": "stress_many", "threads": threads, "class": CLASSES[class as usize], "keys": all.len()}));
                }
                if !wrong.is_empty() {
                    let mut ctx = CaseCtx::new(findings, false);
                    let shown: Vec<&String> = wrong.iter().filter(|w| !w.is_empty()).collect();
                    let res = ctx.fail(
                        format!("many-keys:wrong-value:{}", CLASSES[class as usize]),
                        format!("{threads} threads wrote {} distinct {} keys concurrently; after they finished {} key(s) do not hold what their only writer left: {shown:?}", all.len(), CLASSES[class as usize], wrong.len()),
                    );
                    if let Err(f) = res {
                        let case = serde_json::json!({"threads": threads, "class": CLASSES[class as usize], "wrong": wrong.len(), "examples": shown});
                        let path = nv_engine::runner::write_replay(cfg, "stress_many", &f, &case);
                        return Some(Violation { part: "stress_many".into(), sig: f.sig, msg: f.msg, replay: path });
                    }
                }
            }
            None
        }),
        replay: Box::new(|_case, _f, _s| Err(Fail::new("stress-history", "recorded real-thread outcome (see msg in the replay file); not re-executable"))),
    }
}

fn main() {
    main_for(PropDef {
        id: "C11",
        level: "exploration",
        rule: "lin: 2..5 (8) scripted threads of 1..5 put/get/delete/exists/scan ops on 1..3 contended keys of one key class (plain, emb: with a 384-dim vector whose every component and a sibling scalar carry the writer's tag, node:, table:, _cache:), every written value unique, plus a generated schedule; non-trivial = two operations on one key overlap in time and one is a write. durable: the same with put_durable/delete_durable and the store.durable.logged yield point; non-trivial = two overlapping durable writes to one key. stress: real threads on one key. stress_many: 30 rounds (quick) of 4-8 real threads each writing 1200 distinct keys of one class (first puts, overwrites, deletes), sequential read-back afterwards. scan_seq: one thread, 1-9 keys over an alphabet of ASCII and multi-byte characters (incl. those whose last UTF-8 byte is 0x7F / 0xBF), 1-5 prefixes cut from keys or free-standing; non-trivial = a prefix ending in such a byte with a greater non-matching key stored. distinct = distinct generated case",
        assumptions: vec![
            "the scheduler owns the interleaving at the store.emb.* / store.durable.logged hooks and at operation boundaries only; other windows are reached only by the probabilistic stress part",
            "embedding-class values carry a slab-dimension vector, a vector of another dimension (kept in metadata only) or none, as a function of the write's tag; what is read back must be exactly one write's value",
            "histories longer than 40 operations are not checked (search bound)",
            "cache-class keys are excluded from the durable part",
        ],
        parts: vec![
            PropPart::new("lin", 6000, 100_000, |t| case_strategy(t, true), lin_check).shrink_iters(600).boxed(),
            PropPart::new("durable", 1500, 30_000, |t| case_strategy(t, false), durable_check).shrink_iters(300).boxed(),
            Box::new(stress_part()),
            Box::new(stress_many_part()),
            PropPart::new("scan_seq", 30_000, 1_000_000, scan_strategy, scan_seq_check).boxed(),
        ],
        children: vec![],
    });
}
