//! C02 `sync_race` part: the explicit durability barrier next to other writers.
//!
//! Under SyncMode::Manual / Batched a durable write is only buffered; "a later successful explicit
//! sync" is what makes it crash-safe. Here 2..=3 scripted threads share one durable store under the
//! deterministic scheduler (yield point `store.durable.logged`: inside put_durable / delete_durable,
//! log lock held). A thread that calls `sync()` takes, the moment the call has returned Ok, a
//! copy of the log file — the image a crash at that instant would leave. Recovery from that image
//! must show every write the same thread had completed before the sync (its keys are its own, so
//! nobody else can have overwritten them).

use nv_engine::{sched, CaseCtx, Fail, Tier};
use proptest::prelude::*;
use serde::{Deserialize, Serialize};
use std::sync::{Arc, Mutex};
use std::time::Duration;
use tensor_store::wal::{SyncMode, WalConfig};
use tensor_store::{ScalarValue, TensorData, TensorStore, TensorValue};

#[derive(Clone, Debug, Serialize, Deserialize)]
pub enum SOp {
    Put(u8),
    Delete(u8),
    Sync,
}

#[derive(Clone, Debug, Serialize, Deserialize)]
pub struct SyncCase {
    /// 0 manual, 1 batched (max_entries 1000: never reached here)
    pub mode: u8,
    pub scripts: Vec<Vec<SOp>>,
    pub schedule: Vec<u16>,
}

pub fn strategy(_t: Tier) -> impl Strategy<Value = SyncCase> {
    let op = prop_oneof![5 => (0u8..3).prop_map(SOp::Put), 1 => (0u8..3).prop_map(SOp::Delete), 3 => Just(SOp::Sync)];
    (0u8..2, prop::collection::vec(prop::collection::vec(op, 1..6), 2..=3), prop::collection::vec(any::<u16>(), 0..40)).prop_map(|(mode, scripts, schedule)| SyncCase { mode, scripts, schedule })
}

/// One image per successful sync: (thread, the thread's own keys -> value expected (None = deleted), image path)
type Image = (usize, Vec<(String, Option<i64>)>, std::path::PathBuf);

pub fn check(c: &SyncCase, ctx: &mut CaseCtx) -> Result<(), Fail> {
    let dir = nv_engine::scratch::Dir::new("c02s");
    let wal = dir.join("store.wal");
    let cfg = WalConfig { sync_mode: if c.mode % 2 == 0 { SyncMode::Manual } else { SyncMode::Batched { max_entries: 1000 } }, ..WalConfig::default() };
    let store = TensorStore::open_durable(&wal, cfg.clone()).map_err(|e| Fail::new("harness", e.to_string()))?;
    let images: Arc<Mutex<Vec<Image>>> = Arc::new(Mutex::new(Vec::new()));
    let mut scripts: Vec<Box<dyn FnOnce() + Send>> = Vec::new();
    for (ti, script) in c.scripts.iter().enumerate() {
        let (store, script, images, wal, dirp) = (store.clone(), script.clone(), images.clone(), wal.clone(), dir.join(&format!("img{ti}")));
        scripts.push(Box::new(move || {
            let mut mine: std::collections::BTreeMap<String, Option<i64>> = std::collections::BTreeMap::new();
            let mut n = 0i64;
            for (oi, op) in script.iter().enumerate() {
                sched::op_boundary();
                match op {
                    SOp::Put(k) => {
                        n += 1;
                        let key = format!("t{ti}k{k}");
                        let val = (ti as i64) * 1000 + n;
                        let mut d = TensorData::new();
                        d.set("v", TensorValue::Scalar(ScalarValue::Int(val)));
                        if store.put_durable(key.clone(), d).is_ok() {
                            mine.insert(key, Some(val));
                        }
                    },
                    SOp::Delete(k) => {
                        let key = format!("t{ti}k{k}");
                        if store.delete_durable(&key).is_ok() {
                            mine.insert(key, None);
                        }
                    },
                    SOp::Sync => {
                        if store.sync().is_ok() {
                            let img = dirp.with_extension(format!("{oi}.wal"));
                            if std::fs::copy(&wal, &img).is_ok() {
                                images.lock().unwrap().push((ti, mine.iter().map(|(k, v)| (k.clone(), *v)).collect(), img));
                            }
                        }
                    },
                }
            }
        }));
    }
    let report = sched::run(scripts, &c.schedule, &["store.durable.logged", "store.durable.unlocked"], Duration::from_millis(60));
    if let Some((t, m)) = report.panics.first() {
        ctx.fail("sync-race:panic-in-thread", format!("thread {t} panicked: {m}"))?;
    }
    if report.deadlocked {
        ctx.label("sync-race: inconclusive schedule");
        return Ok(());
    }
    if report.blocked_events > 0 {
        // a thread waited for a lock another (parked) thread held: the window the part is after
        ctx.label("sync-race: a thread had to wait for a parked thread's lock");
        ctx.set_nontrivial();
    }
    let images = images.lock().unwrap().clone();
    ctx.label(format!("sync-race: images {}", images.len().min(4)));
    for (ti, mine, img) in images {
        if mine.is_empty() {
            continue;
        }
        let rec = match TensorStore::recover(&img, &cfg, None) {
            Ok(r) => r,
            Err(e) => {
                ctx.fail("sync-race:recover-failed", format!("recovery from the log as it was when thread {ti}'s sync() returned failed: {e}"))?;
                continue;
            },
        };
        for (k, want) in &mine {
            let got = match rec.get(k) {
                Ok(d) => match d.get("v") {
                    Some(TensorValue::Scalar(ScalarValue::Int(v))) => Some(*v),
                    _ => Some(i64::MIN),
                },
                Err(_) => None,
            };
            if got != *want {
                ctx.fail(
                    "sync-race:synced-write-lost",
                    format!("thread {ti} wrote {k} = {want:?} durably, then sync() returned Ok; a crash at that instant (copy of the log file) recovers {k} = {got:?}"),
                )?;
                break;
            }
        }
    }
    Ok(())
}
