//! C02 — Durable store: acknowledged writes survive any crash, in order.
//!
//! A real durable `TensorStore` (WAL + checkpoints) executes generated sequences of
//! put_durable / delete_durable / sync / checkpoint over all key classes and value kinds, under
//! every sync mode and with normal or tiny log-size limits. After every call the harness records
//! the store's observable state (scan + get of every key). At generated crash points a crash
//! image of the directory is taken (a) at every byte position (thorough) / a stratified set
//! (quick) of the bytes the crashing call appended to the log and (b) at every crash-point hook
//! inside checkpoint() and log rotation; the real recovery runs on each image and must yield
//! exactly one of the recorded states not older than the last acknowledged write. The generated
//! image continues the chain: more writes on the recovered store, up to three crashes.

mod syncrace;
use nv_engine::crashkit::cut_points;
use nv_engine::{main_for, pick, walframe, CaseCtx, Fail, PropDef, PropPart, Tier};
use proptest::prelude::*;
use serde::{Deserialize, Serialize};
use std::cell::RefCell;
use std::collections::BTreeMap;
use std::path::{Path, PathBuf};
use tensor_store::wal::{SyncMode, WalConfig};
use tensor_store::{ScalarValue, SparseVector, TensorData, TensorStore, TensorValue};

// ------------------------------------------------------------------ values and keys

#[derive(Clone, Debug, Serialize, Deserialize)]
enum Val {
    Null,
    Bool(bool),
    Int(i64),
    /// f64 by bits so that NaN payloads and -0.0 survive the replay file
    Float(u64),
    Str(String),
    Bytes(Vec<u8>),
    /// small dense vector (f32 bits)
    Vec(Vec<u32>),
    SparseVec(u8, Vec<(u8, u32)>),
    Pointer(String),
    Pointers(Vec<String>),
    /// a bytes value whose log record is tens of KB up to more than 1 MiB (pattern from `fill`,
    /// length from `BIG_SIZES[class]`): recovery must not treat a long record as garbage
    Big { fill: u8, class: u8 },
}

const BIG_SIZES: [usize; 6] = [65_536, 300_000, 1_048_400, 1_048_576, 1_049_000, 1_400_000];

fn val_strategy() -> impl Strategy<Value = Val> {
    let f = prop_oneof![
        Just(0.0f64.to_bits()),
        Just((-0.0f64).to_bits()),
        Just(f64::NAN.to_bits()),
        Just(f64::INFINITY.to_bits()),
        Just(f64::NEG_INFINITY.to_bits()),
        Just(1.5f64.to_bits()),
        Just(f64::MIN_POSITIVE.to_bits()),
        any::<u64>(),
    ];
    prop_oneof![
        1 => (any::<u8>(), 0u8..6).prop_map(|(fill, class)| Val::Big { fill, class }).boxed(),
        70 => small_val_strategy(f.boxed()).boxed(),
    ]
}

fn small_val_strategy(f: BoxedStrategy<u64>) -> impl Strategy<Value = Val> {
    prop_oneof![
        Just(Val::Null),
        any::<bool>().prop_map(Val::Bool),
        prop_oneof![Just(i64::MIN), Just(i64::MAX), Just(0i64), Just(-1i64), any::<i64>()].prop_map(Val::Int),
        f.prop_map(Val::Float),
        prop_oneof![Just(String::new()), "[a-z]{1,6}", Just("héllo wörld ✓".to_string())].prop_map(Val::Str),
        prop::collection::vec(any::<u8>(), 0..12).prop_map(Val::Bytes),
        prop::collection::vec(prop_oneof![Just(0u32), Just(1.0f32.to_bits()), Just((-2.5f32).to_bits()), any::<u32>()], 0..6).prop_map(Val::Vec),
        (4u8..12, prop::collection::vec((0u8..4, prop_oneof![Just(1.0f32.to_bits()), Just(0.25f32.to_bits())]), 0..3)).prop_map(|(d, e)| Val::SparseVec(d, e)),
        "[a-z]{1,5}".prop_map(Val::Pointer),
        prop::collection::vec("[a-z]{1,4}", 0..3).prop_map(Val::Pointers),
    ]
}

fn to_tensor_value(v: &Val) -> TensorValue {
    match v {
        Val::Null => TensorValue::Scalar(ScalarValue::Null),
        Val::Bool(b) => TensorValue::Scalar(ScalarValue::Bool(*b)),
        Val::Int(i) => TensorValue::Scalar(ScalarValue::Int(*i)),
        Val::Float(b) => TensorValue::Scalar(ScalarValue::Float(f64::from_bits(*b))),
        Val::Str(s) => TensorValue::Scalar(ScalarValue::String(s.clone())),
        Val::Bytes(b) => TensorValue::Scalar(ScalarValue::Bytes(b.clone())),
        Val::Vec(v) => TensorValue::Vector(v.iter().map(|b| f32::from_bits(*b)).collect()),
        Val::SparseVec(d, e) => {
            let mut dense = vec![0.0f32; *d as usize];
            for (p, b) in e {
                dense[*p as usize % *d as usize] = f32::from_bits(*b);
            }
            TensorValue::Sparse(SparseVector::from_dense(&dense))
        },
        Val::Pointer(p) => TensorValue::Pointer(p.clone()),
        Val::Pointers(p) => TensorValue::Pointers(p.clone()),
        Val::Big { fill, class } => {
            let n = BIG_SIZES[*class as usize % BIG_SIZES.len()];
            TensorValue::Scalar(ScalarValue::Bytes((0..n).map(|i| (i as u8).wrapping_mul(31).wrapping_add(*fill)).collect()))
        },
    }
}

/// What goes into the `_embedding` field of an embedding-class key.
#[derive(Clone, Debug, Serialize, Deserialize)]
enum Emb {
    None,
    /// 384-dim (the slab's dimension), more than half exact zeros so that a checkpoint stores it in
    /// the exact sparse form; (position, f32 bits) of the non-zeros
    Slab(Vec<(u16, u8)>),
    /// a dimension the embedding slab does not take: kept in metadata only
    OffDim(Vec<u32>),
}

fn emb_strategy() -> impl Strategy<Value = Emb> {
    prop_oneof![
        1 => Just(Emb::None),
        4 => prop::collection::vec((0u16..384, 0u8..4), 0..40).prop_map(Emb::Slab),
        1 => prop::collection::vec(any::<u32>(), 1..5).prop_map(Emb::OffDim),
    ]
}

const KEYS: [&str; 10] = ["plain", "user:1", "emb:a", "emb:b", "node:1", "edge:7", "table:t:1", "_cache:x", "emb:c", "k"];

#[derive(Clone, Debug, Serialize, Deserialize)]
enum Op {
    /// warm = the same value is first written with the non-durable `put` (memory only), then with
    /// `put_durable`: the acknowledged durable write must be in the log whatever memory already held
    Put {
        key: u8,
        fields: Vec<(u8, Val)>,
        emb: Emb,
        #[serde(default)]
        warm: bool,
    },
    Delete { key: u8 },
    Sync,
    Checkpoint,
    /// generator-only: expanded into one Delete per key (and, if set, a Checkpoint of the then
    /// empty store) before the case is built; never part of a Case
    DeleteAll(bool),
}

#[derive(Clone, Debug, Serialize, Deserialize)]
struct Scripted {
    op: Op,
    crash: Option<u16>,
}

#[derive(Clone, Debug, Serialize, Deserialize)]
struct Case {
    /// 0 immediate, 1 batched(batch), 2 manual
    mode: u8,
    batch: u8,
    /// tiny max_size_bytes so that the log rotates
    tiny_log: bool,
    ops: Vec<Scripted>,
}

fn op_strategy() -> impl Strategy<Value = Op> {
    prop_oneof![
        12 => (0u8..10, prop::collection::vec((0u8..4, val_strategy()), 0..3), emb_strategy(), prop::bool::weighted(0.15)).prop_map(|(key, fields, emb, warm)| Op::Put { key, fields, emb, warm }),
        4 => (0u8..10).prop_map(|key| Op::Delete { key }),
        2 => Just(Op::Sync),
        2 => Just(Op::Checkpoint),
        1 => any::<bool>().prop_map(Op::DeleteAll),
    ]
}

fn case_strategy(t: Tier) -> impl Strategy<Value = Case> {
    let max = t.pick(30usize, 40usize);
    (
        prop_oneof![5 => Just(0u8), 2 => Just(1u8), 2 => Just(2u8)],
        2u8..6,
        prop::bool::weighted(0.12),
        prop::collection::vec((op_strategy(), prop::option::weighted(0.18, any::<u16>())), 1..max),
    )
        .prop_map(|(mode, batch, tiny_log, ops)| Case {
            mode,
            batch,
            tiny_log,
            ops: ops
                .into_iter()
                .flat_map(|(op, crash)| match op {
                    // an emptied store (and a checkpoint of it): one call per key, so that every
                    // call stays a unit of acknowledgement
                    Op::DeleteAll(cp) => {
                        let mut v: Vec<Scripted> = (0..KEYS.len() as u8).map(|key| Scripted { op: Op::Delete { key }, crash: None }).collect();
                        if cp {
                            v.push(Scripted { op: Op::Checkpoint, crash });
                        } else if let Some(l) = v.last_mut() {
                            l.crash = crash;
                        }
                        v
                    },
                    op => vec![Scripted { op, crash }],
                })
                .collect(),
        })
}

fn tensor_of(key: &str, fields: &[(u8, Val)], emb: &Emb) -> TensorData {
    let mut d = TensorData::new();
    for (n, v) in fields {
        d.set(format!("f{n}"), to_tensor_value(v));
    }
    // an `_embedding` field is what the embedding slab looks at for emb: keys; on some other keys
    // it is an ordinary field that must not be treated specially (neither live nor on recovery)
    if key.starts_with("emb:") || matches!(key, "user:1" | "node:1" | "k") {
        match emb {
            Emb::None => {},
            Emb::Slab(nz) => {
                let mut v = vec![0.0f32; 384];
                for (p, c) in nz {
                    v[*p as usize] = [1.0f32, -2.5, 0.125, 3.0e-3][*c as usize % 4];
                }
                d.set("_embedding", TensorValue::Vector(v));
            },
            Emb::OffDim(b) => d.set("_embedding", TensorValue::Vector(b.iter().map(|x| f32::from_bits(*x)).collect())),
        }
    }
    d
}

// ------------------------------------------------------------------ observable state

/// key -> field -> canonical bytes (bitcode of the value: floats bit-exact, field order irrelevant)
type State = BTreeMap<String, BTreeMap<String, Vec<u8>>>;

fn observe(store: &TensorStore) -> State {
    let mut st = State::new();
    let mut keys = store.scan("");
    keys.sort();
    for k in keys {
        if k.starts_with("_cache:") {
            continue; // documented as non-durable
        }
        match store.get(&k) {
            Ok(d) => {
                let mut f = BTreeMap::new();
                for (name, v) in d.fields_iter() {
                    f.insert(name.clone(), bitcode::serialize(v).unwrap_or_default());
                }
                st.insert(k, f);
            },
            Err(_) => {
                // listed by scan but not readable: part of the observable state as well
                let mut f = BTreeMap::new();
                f.insert("<listed-by-scan-but-get-fails>".to_string(), Vec::new());
                st.insert(k, f);
            },
        }
    }
    st
}

fn diff(a: &State, b: &State) -> String {
    let mut out = Vec::new();
    for k in a.keys().chain(b.keys()) {
        if a.get(k) != b.get(k) && !out.iter().any(|x: &String| x.starts_with(&format!("{k}:"))) {
            let side = |s: &State| match s.get(k) {
                None => "absent".to_string(),
                Some(f) => format!("{} field(s) {:?}", f.len(), f.keys().collect::<Vec<_>>()),
            };
            out.push(format!("{k}: recovered {} / expected {}", side(a), side(b)));
        }
    }
    out.join("; ")
}

// ------------------------------------------------------------------ crash images

thread_local! {
    /// while a crashing call runs: (directory of the live files, probe directory, captured sites)
    static CAPTURE: RefCell<Option<Capture>> = const { RefCell::new(None) };
}

struct Capture {
    live: PathBuf,
    probes: PathBuf,
    sites: Vec<(&'static str, PathBuf)>,
}

fn copy_dir(from: &Path, to: &Path) {
    let _ = std::fs::create_dir_all(to);
    if let Ok(rd) = std::fs::read_dir(from) {
        for e in rd.flatten() {
            if e.path().is_file() {
                let _ = std::fs::copy(e.path(), to.join(e.file_name()));
            }
        }
    }
}

fn on_crash_point(site: &'static str) {
    CAPTURE.with(|c| {
        if let Some(cap) = c.borrow_mut().as_mut() {
            let dst = cap.probes.join(format!("site-{}-{}", cap.sites.len(), site));
            copy_dir(&cap.live, &dst);
            cap.sites.push((site, dst));
        }
    });
}

fn wal_config(case: &Case) -> WalConfig {
    let mut c = WalConfig::default();
    c.sync_mode = match case.mode % 3 {
        0 => SyncMode::Immediate,
        1 => SyncMode::Batched { max_entries: case.batch.max(2) as usize },
        _ => SyncMode::Manual,
    };
    if case.tiny_log {
        c.max_size_bytes = 2048;
    }
    c
}

struct Driver<'a> {
    case: &'a Case,
    root: nv_engine::scratch::Dir,
    gen: u32,
    /// directory holding the live store's files (wal, rotated logs, snapshot)
    live: PathBuf,
    store: TensorStore,
    /// observable states: states[0] = state at (re)start, states[j] = after the j-th call since then
    states: Vec<State>,
    /// number of calls (since restart) whose effects are acknowledged as durable
    acked: usize,
    rotated: bool,
    /// a rotation happened since the last completed checkpoint: only then can the recorded finding
    /// `rotation-drops-log` (recovery ignores the rotated file) explain a loss - after a checkpoint
    /// the snapshot covers everything the rotated file held
    rotated_since_cp: bool,
    /// inode of store.wal.1 when last looked at (a rotation puts another file there)
    rot_ino: Option<u64>,
    torn_tail_pending: bool,
    torn_tail_then_append: bool,
}

fn wal_path(dir: &Path) -> PathBuf {
    dir.join("store.wal")
}
fn snap_path(dir: &Path) -> PathBuf {
    dir.join("store.snap")
}
fn flen(p: &Path) -> usize {
    std::fs::metadata(p).map(|m| m.len() as usize).unwrap_or(0)
}

impl<'a> Driver<'a> {
    fn new(case: &'a Case) -> Result<Self, Fail> {
        let root = nv_engine::scratch::Dir::new("c02");
        let live = root.join("gen0");
        std::fs::create_dir_all(&live).map_err(|e| Fail::new("harness", e.to_string()))?;
        let store = TensorStore::open_durable(wal_path(&live), wal_config(case)).map_err(|e| Fail::new("harness", e.to_string()))?;
        let st = observe(&store);
        Ok(Self { case, root, gen: 0, live, store, states: vec![st], acked: 0, rotated: false, rotated_since_cp: false, rot_ino: None, torn_tail_pending: false, torn_tail_then_append: false })
    }

    fn exec(&mut self, op: &Op, ctx: &mut CaseCtx) {
        let mut synced = false;
        match op {
            Op::Put { key, fields, emb, warm } => {
                let k = KEYS[*key as usize % KEYS.len()];
                if *warm {
                    let _ = self.store.put(k, tensor_of(k, fields, emb));
                    ctx.label("put_durable of the value a non-durable put had just placed in memory");
                }
                let _ = self.store.put_durable(k, tensor_of(k, fields, emb));
                ctx.label(format!("put:{}", k.split(':').next().unwrap_or("plain")));
                if let Some(Val::Big { class, .. }) = fields.iter().map(|(_, v)| v).find(|v| matches!(v, Val::Big { .. })) {
                    ctx.label(if BIG_SIZES[*class as usize % BIG_SIZES.len()] >= 1_000_000 { "put of a value around/above 1 MiB" } else { "put of a value of tens of KB" });
                }
            },
            Op::Delete { key } => {
                let k = KEYS[*key as usize % KEYS.len()];
                if self.store.delete_durable(k).is_ok() {
                    ctx.label("delete of an existing key");
                }
            },
            Op::DeleteAll(_) => unreachable!("expanded by the generator"),
            Op::Sync => {
                synced = self.store.sync().is_ok();
            },
            Op::Checkpoint => {
                if self.store.checkpoint(snap_path(&self.live)).is_ok() {
                    ctx.label("checkpoint");
                    if self.rotated_since_cp {
                        ctx.label("checkpoint after a rotation");
                    }
                    self.rotated_since_cp = false;
                }
            },
        }
        self.states.push(observe(&self.store));
        if self.case.mode % 3 == 0 || synced {
            self.acked = self.states.len() - 1;
        }
        if wal_path(&self.live).with_file_name("store.wal.1").exists() && !self.rotated {
            self.rotated = true;
            ctx.label("log rotated");
        }
        let ino = {
            use std::os::unix::fs::MetadataExt;
            std::fs::metadata(wal_path(&self.live).with_file_name("store.wal.1")).ok().map(|m| m.ino())
        };
        if ino != self.rot_ino {
            self.rot_ino = ino;
            self.rotated_since_cp = true;
        }
    }

    /// Run the real recovery on a crash image and compare with the admissible states.
    fn check_image(&self, dir: &Path, lo: usize, hi: usize, ctx: &mut CaseCtx, what: &str) -> Result<Option<(TensorStore, usize)>, Fail> {
        let suffix = if self.torn_tail_then_append { "-after-torn-tail" } else { "" };
        let store = match TensorStore::recover(wal_path(dir), &wal_config(self.case), Some(&snap_path(dir))) {
            Ok(s) => s,
            Err(e) => {
                ctx.fail(format!("recover-failed{suffix}"), format!("{what}: TensorStore::recover failed on a crash image of the store's own files: {e}"))?;
                return Ok(None);
            },
        };
        let got = observe(&store);
        for j in (lo..=hi.min(self.states.len() - 1)).rev() {
            if self.states[j] == got {
                return Ok(Some((store, j)));
            }
        }
        // classify
        let older = (0..lo).rev().find(|j| self.states[*j] == got);
        let sig = if self.rotated_since_cp && self.case.tiny_log {
            "rotation-drops-log".to_string()
        } else if older.is_some() {
            format!("acknowledged-write-lost{suffix}")
        } else {
            format!("state-is-no-prefix{suffix}")
        };
        let detail = match older {
            Some(j) => format!("the recovered state equals the state after call {j}, but calls up to {lo} were acknowledged"),
            None => format!("the recovered state equals none of the states after calls {lo}..={hi}; versus the newest: {}", diff(&got, &self.states[hi.min(self.states.len() - 1)])),
        };
        ctx.fail(sig, format!("{what}: {detail}"))?;
        Ok(None)
    }
}

fn run_case(case: &Case, ctx: &mut CaseCtx, all_cuts: bool) -> Result<(), Fail> {
    tensor_store::verif_hooks::set_crash_callback(Some(on_crash_point));
    let mut d = Driver::new(case)?;
    let mut crashes = 0;
    let mut nontrivial = false;
    ctx.label(["mode:immediate", "mode:batched", "mode:manual"][case.mode as usize % 3]);
    if case.tiny_log {
        ctx.label("tiny log limit");
    }
    for sc in &case.ops {
        let crashing = sc.crash.is_some() && crashes < 3;
        let before = flen(&wal_path(&d.live));
        let acked_before = d.acked;
        let issued_before = d.states.len() - 1;
        let probes = d.root.join(&format!("probes{}", d.gen));
        if crashing {
            let _ = std::fs::remove_dir_all(&probes);
            let _ = std::fs::create_dir_all(&probes);
            CAPTURE.with(|c| *c.borrow_mut() = Some(Capture { live: d.live.clone(), probes: probes.clone(), sites: Vec::new() }));
        }
        let rotated_before = d.rotated;
        d.exec(&sc.op, ctx);
        let cap = CAPTURE.with(|c| c.borrow_mut().take());
        let after = flen(&wal_path(&d.live));
        if after > before && d.torn_tail_pending {
            d.torn_tail_then_append = true;
            ctx.label("appended after a torn tail");
        }
        if !crashing {
            continue;
        }
        let cap = cap.unwrap();
        let issued_after = d.states.len() - 1;
        // candidate crash images: (directory, lowest admissible state, highest, description, inside-record?)
        let mut images: Vec<(PathBuf, usize, usize, String, bool)> = Vec::new();
        for (site, dir) in &cap.sites {
            images.push((dir.clone(), acked_before, issued_after, format!("crash at hook {site} inside {:?}", op_name(&sc.op)), false));
        }
        let same_file = after >= before && d.rotated == rotated_before && !matches!(sc.op, Op::Checkpoint);
        if same_file && after > before {
            let bytes = std::fs::read(wal_path(&d.live)).map_err(|e| Fail::new("harness", e.to_string()))?;
            let mut bounds: Vec<usize> = walframe::boundaries(&bytes[before..]).into_iter().map(|b| b + before).collect();
            bounds.retain(|b| *b > before && *b <= after);
            for c in cuts_for(before, after, all_cuts, &bounds) {
                let dir = probes.join(format!("cut-{c}"));
                copy_dir(&d.live, &dir);
                std::fs::write(wal_path(&dir), &bytes[..c]).map_err(|e| Fail::new("harness", e.to_string()))?;
                let complete = c == after;
                // the crashing call was issued: a prefix that includes it is admissible even though
                // the call had not returned
                let hi = issued_after;
                let _ = issued_before;
                // a call whose bytes all survived is acknowledged under immediate sync
                let lo = if complete && case.mode % 3 == 0 { issued_after } else { acked_before };
                let inside = !bounds.contains(&c) && c != before;
                images.push((dir, lo, hi.max(lo), format!("crash at byte {c} of the log ({:?} wrote {before}..{after})", op_name(&sc.op)), inside));
            }
        }
        if images.is_empty() {
            // the call wrote nothing to disk: the image is the directory as it is
            let dir = probes.join("asis");
            copy_dir(&d.live, &dir);
            images.push((dir, d.acked.min(acked_before), issued_after, format!("crash right after {:?}", op_name(&sc.op)), false));
        }
        crashes += 1;
        ctx.label("crash");
        let chosen = pick(sc.crash.unwrap(), images.len());
        let mut next: Option<(TensorStore, usize, PathBuf, bool)> = None;
        for (i, (dir, lo, hi, what, inside)) in images.iter().enumerate() {
            let r = d.check_image(dir, *lo, *hi, ctx, what)?;
            if ctx.known_hit() {
                return Ok(());
            }
            if i == chosen {
                if let Some((store, j)) = r {
                    next = Some((store, j, dir.clone(), *inside));
                }
            }
            if what.contains("hook") {
                ctx.label("crash inside checkpoint/rotation");
                nontrivial = true;
            }
            if *inside {
                nontrivial = true;
            }
        }
        let Some((store, j, dir, inside)) = next else { return Ok(()) };
        // continue on the recovered store: its files become the live files
        d.gen += 1;
        let live = d.root.join(&format!("gen{}", d.gen));
        let _ = std::fs::remove_dir_all(&live);
        drop(store);
        std::fs::rename(&dir, &live).map_err(|e| Fail::new("harness", e.to_string()))?;
        let store = match TensorStore::recover(wal_path(&live), &wal_config(case), Some(&snap_path(&live))) {
            Ok(s) => s,
            Err(e) => return Err(Fail::new("recover-failed-second-open", format!("recovering the same image twice failed the second time: {e}"))),
        };
        let st = observe(&store);
        if st != d.states[j] {
            ctx.fail("recovery-not-repeatable", format!("recovering the same crash image twice gave different states: {}", diff(&st, &d.states[j])))?;
        }
        d.live = live;
        d.store = store;
        d.states = vec![st];
        d.acked = 0;
        d.rotated = wal_path(&d.live).with_file_name("store.wal.1").exists();
        if inside {
            d.torn_tail_pending = true;
            ctx.label("crash inside a record");
        }
        if crashes >= 2 {
            ctx.label("second crash after writes on a recovered store");
            nontrivial = true;
        }
        let _ = std::fs::remove_dir_all(&probes);
    }
    if nontrivial {
        ctx.set_nontrivial();
    }
    Ok(())
}

/// Every byte for small appends; for large ones (a 1.6 KB vector record) every byte within 12 of a
/// record boundary or header plus ~150 evenly spread interior positions.
fn cuts_for(before: usize, after: usize, all: bool, bounds: &[usize]) -> Vec<usize> {
    if !all {
        return cut_points(before, after, false, 3, bounds);
    }
    if after - before <= 260 {
        return cut_points(before, after, true, 0, bounds);
    }
    let mut v: Vec<usize> = Vec::new();
    let mut marks: Vec<usize> = bounds.to_vec();
    marks.push(before);
    marks.push(after);
    for b in marks {
        for x in b.saturating_sub(12)..=b + 12 {
            if x >= before && x <= after {
                v.push(x);
            }
        }
    }
    let span = after - before;
    for k in 1..150 {
        v.push(before + span * k / 150);
    }
    v.sort_unstable();
    v.dedup();
    v
}

fn op_name(op: &Op) -> &'static str {
    match op {
        Op::Put { .. } => "put_durable",
        Op::Delete { .. } | Op::DeleteAll(_) => "delete_durable",
        Op::Sync => "sync",
        Op::Checkpoint => "checkpoint",
    }
}

fn main() {
    main_for(PropDef {
        id: "C02",
        level: "fault_enumeration",
        rule: "sequences of 1..30 (quick) / 1..40 (thorough) put_durable/delete_durable/sync/checkpoint calls over 10 keys of all classes (plain, emb: with slab-dimension and off-dimension vectors, node:/edge:, table:, _cache:) and all value kinds (15% of the puts preceded by a non-durable put of the same value, so that memory already holds what the durable write must log), sync mode drawn from immediate/batched/manual, 12% with a 2 KB log limit (rotation), up to 3 crash points; at each crash: every hook site inside checkpoint()/rotate() plus every byte (part allcuts, thorough) or record boundaries +-1/header offsets/3 interior points (quick) of the bytes the call appended; the generated image continues the chain. non-trivial = a crash strictly inside a record, inside checkpoint/rotation, or a second crash after writes on a recovered store; distinct = distinct generated sequence",
        assumptions: vec![
            "a crash keeps the bytes that reached the files (process-kill model: user-space buffers are lost, a dropped fsync is invisible) and, for the crashing call, any byte prefix of what it appended",
            "oracle = the store's own observable state (scan + get of every key, floats bit-exact) recorded after every call; recovery must reproduce one of the recorded states not older than the last acknowledged call",
            "acknowledged = returned under immediate sync, or issued before the last successful explicit sync under batched/manual",
            "cache-prefixed keys are excluded (documented non-durable)",
            "slab-dimension embeddings are generated with more than half exact zeros so that a checkpoint stores them in the exact sparse form (lossy tensor-train storage of dense long vectors belongs to C07)",
        ],
        parts: vec![
            PropPart::new("crash", 1500, 60_000, case_strategy, |c: &Case, ctx: &mut CaseCtx| run_case(c, ctx, false)).shrink_iters(250).boxed(),
            PropPart::new("crash_allcuts", 60, 6_000, case_strategy, |c: &Case, ctx: &mut CaseCtx| run_case(c, ctx, true)).shrink_iters(80).boxed(),
            PropPart::new("sync_race", 800, 16_000, syncrace::strategy, syncrace::check).shrink_iters(200).boxed(),
        ],
        children: vec![],
    });
}
