fn main() {}
