//! Reference model shared by the parts: observed store image, transaction semantics, the
//! documented hash constructions (block header hash, signing bytes, transaction Merkle root,
//! state root) re-implemented from their documentation, and the generator-side transaction form.

use proptest::prelude::*;
use serde::{Deserialize, Serialize};
use sha2::{Digest, Sha256};
use std::collections::BTreeMap;
use tensor_chain::{BlockHeader, Transaction};
use tensor_store::{ScalarValue, TensorStore, TensorValue};

pub type Fields = BTreeMap<String, Vec<u8>>;
/// key -> field name -> bitcode bytes of the field value (bit-exact image of the store)
pub type State = BTreeMap<String, Fields>;
pub type H32 = [u8; 32];

pub fn enc(v: &TensorValue) -> Vec<u8> {
    bitcode::serialize(v).unwrap_or_default()
}

/// Full scan + get of every key.
pub fn observe(store: &TensorStore) -> State {
    let mut st = State::new();
    let mut keys = store.scan("");
    keys.sort();
    for k in keys {
        if let Ok(d) = store.get(&k) {
            let mut f = Fields::new();
            for (name, v) in d.fields_iter() {
                f.insert(name.clone(), enc(v));
            }
            st.insert(k, f);
        }
    }
    st
}

/// Keys the generated transactions can write (everything else is chain bookkeeping).
pub fn is_user_key(k: &str) -> bool {
    k.starts_with('k') || k.starts_with("emb:k") || k.starts_with("node:n") || k.starts_with("edge:n") || k.starts_with("table:t")
}

pub fn user_part(s: &State) -> State {
    s.iter().filter(|(k, _)| is_user_key(k)).map(|(k, v)| (k.clone(), v.clone())).collect()
}

pub fn diff(a: &State, b: &State) -> String {
    let mut out: Vec<String> = Vec::new();
    let mut keys: Vec<&String> = a.keys().chain(b.keys()).collect();
    keys.sort();
    keys.dedup();
    for k in keys {
        if a.get(k) != b.get(k) {
            let side = |s: &State| match s.get(k) {
                None => "absent".to_string(),
                Some(f) => format!("{:?}", f.iter().map(|(n, v)| (n.as_str(), v.len())).collect::<Vec<_>>()),
            };
            out.push(format!("{k}: got {} / want {}", side(a), side(b)));
        }
        if out.len() >= 6 {
            out.push("…".into());
            break;
        }
    }
    out.join("; ")
}

fn f1(name: &str, v: TensorValue) -> Fields {
    let mut f = Fields::new();
    f.insert(name.to_string(), enc(&v));
    f
}

fn s(v: &str) -> TensorValue {
    TensorValue::Scalar(ScalarValue::String(v.to_string()))
}

fn b(v: &[u8]) -> TensorValue {
    TensorValue::Scalar(ScalarValue::Bytes(v.to_vec()))
}

fn hex(h: &[u8]) -> String {
    h.iter().map(|x| format!("{x:02x}")).collect()
}

pub fn tx_leaf(tx: &Transaction) -> H32 {
    Sha256::digest(bitcode::serialize(tx).unwrap_or_default()).into()
}

/// The storage key a transaction writes or removes (model's own mapping).
pub fn touched_key(tx: &Transaction) -> String {
    match tx {
        Transaction::Put { key, .. } | Transaction::Delete { key } | Transaction::CompareAndSwap { key, .. } => key.clone(),
        Transaction::Embed { key, .. } => format!("emb:{key}"),
        Transaction::NodeCreate { key, .. } | Transaction::NodeDelete { key } => format!("node:{key}"),
        Transaction::EdgeCreate { from, to, edge_type } => format!("edge:{from}:{to}:{edge_type}"),
        Transaction::TableInsert { table, .. } => format!("table:{table}:row:{}", hex(&tx_leaf(tx))),
        Transaction::TableUpdate { table, row_id, .. } | Transaction::TableDelete { table, row_id } => {
            format!("table:{table}:row:{row_id}")
        },
        _ => String::new(),
    }
}

/// Documented effect of one transaction on the key-addressed store.
pub fn apply_tx(st: &mut State, tx: &Transaction) {
    let k = touched_key(tx);
    match tx {
        Transaction::Put { data, .. } => {
            st.insert(k, f1("data", b(data)));
        },
        Transaction::Delete { .. } | Transaction::NodeDelete { .. } | Transaction::TableDelete { .. } => {
            st.remove(&k);
        },
        Transaction::Embed { vector, .. } => {
            st.insert(k, f1("vector", TensorValue::Vector(vector.clone())));
        },
        Transaction::NodeCreate { key, label } => {
            let mut f = Fields::new();
            f.insert("_id".into(), enc(&s(key)));
            f.insert("_type".into(), enc(&s("node")));
            f.insert("_label".into(), enc(&s(label)));
            st.insert(k, f);
        },
        Transaction::EdgeCreate { from, to, edge_type } => {
            let mut f = Fields::new();
            f.insert("_from".into(), enc(&s(from)));
            f.insert("_to".into(), enc(&s(to)));
            f.insert("_edge_type".into(), enc(&s(edge_type)));
            st.insert(k, f);
        },
        Transaction::TableInsert { values, .. } | Transaction::TableUpdate { values, .. } => {
            st.insert(k, f1("data", b(values)));
        },
        Transaction::CompareAndSwap { expected_data, new_data, .. } => {
            // current value = the bytes stored under "data"; a missing key or a non-bytes value counts as empty
            let cur: Vec<u8> = st
                .get(&k)
                .and_then(|f| f.get("data"))
                .and_then(|raw| match bitcode::deserialize::<TensorValue>(raw) {
                    Ok(TensorValue::Scalar(ScalarValue::Bytes(x))) => Some(x),
                    _ => None,
                })
                .unwrap_or_default();
            if &cur == expected_data {
                st.insert(k, f1("data", b(new_data)));
            }
        },
        _ => {},
    }
}

// ---------------------------------------------------------------- documented hash constructions

/// "SHA-256 of all keys and values, iterated in sorted order": per key len+bytes, field count,
/// per field (sorted) len+name, len+serialized value.
pub fn state_root(st: &State) -> H32 {
    let mut buf: Vec<u8> = Vec::new();
    for (k, fields) in st {
        buf.extend_from_slice(&(k.len() as u64).to_le_bytes());
        buf.extend_from_slice(k.as_bytes());
        buf.extend_from_slice(&(fields.len() as u64).to_le_bytes());
        for (name, val) in fields {
            buf.extend_from_slice(&(name.len() as u64).to_le_bytes());
            buf.extend_from_slice(name.as_bytes());
            buf.extend_from_slice(&(val.len() as u64).to_le_bytes());
            buf.extend_from_slice(val);
        }
    }
    Sha256::digest(&buf).into()
}

/// Binary Merkle tree over the transaction hashes; an odd node is paired with itself; no
/// transactions = all zero; one transaction = its hash.
pub fn merkle(txs: &[Transaction]) -> H32 {
    fn up(nodes: &[H32]) -> H32 {
        match nodes.len() {
            0 => [0u8; 32],
            1 => nodes[0],
            _ => {
                let mut parents = Vec::new();
                let mut i = 0;
                while i < nodes.len() {
                    let l = nodes[i];
                    let r = if i + 1 < nodes.len() { nodes[i + 1] } else { nodes[i] };
                    let mut cat = [0u8; 64];
                    cat[..32].copy_from_slice(&l);
                    cat[32..].copy_from_slice(&r);
                    parents.push(Sha256::digest(cat).into());
                    i += 2;
                }
                up(&parents)
            },
        }
    }
    let leaves: Vec<H32> = txs.iter().map(tx_leaf).collect();
    up(&leaves)
}

/// Canonical header bytes: every field except the signature.
pub fn signing_bytes(h: &BlockHeader) -> Vec<u8> {
    let mut v = Vec::new();
    v.extend_from_slice(&h.height.to_le_bytes());
    v.extend_from_slice(&h.prev_hash);
    v.extend_from_slice(&h.tx_root);
    v.extend_from_slice(&h.state_root);
    v.extend_from_slice(&bitcode::serialize(&h.delta_embedding).unwrap_or_default());
    for c in &h.quantized_codes {
        v.extend_from_slice(&c.to_le_bytes());
    }
    v.extend_from_slice(&h.timestamp.to_le_bytes());
    v.extend_from_slice(h.proposer.as_bytes());
    v
}

pub fn header_hash(h: &BlockHeader) -> H32 {
    Sha256::digest(signing_bytes(h)).into()
}

// ---------------------------------------------------------------- generated transactions

pub const VALS: [&[u8]; 4] = [&[], &[0], &[1], &[2, 3]];

#[derive(Clone, Debug, Serialize, Deserialize, PartialEq)]
pub enum TxSpec {
    Put { k: u8, v: u8 },
    PutRaw { k: u8, data: Vec<u8> },
    Del { k: u8 },
    Cas { k: u8, exp: u8, new: u8 },
    Embed { k: u8, v: Vec<i8> },
    NodeCreate { k: u8, label: u8 },
    NodeDelete { k: u8 },
    Edge { a: u8, b: u8, t: u8 },
    TIns { t: u8, v: u8 },
    TUpd { t: u8, row: u8, v: u8 },
    TDel { t: u8, row: u8 },
}

fn val(i: u8) -> Vec<u8> {
    VALS[i as usize % VALS.len()].to_vec()
}

pub fn to_tx(t: &TxSpec) -> Transaction {
    match t {
        TxSpec::Put { k, v } => Transaction::Put { key: format!("k{}", k % 5), data: val(*v) },
        TxSpec::PutRaw { k, data } => Transaction::Put { key: format!("k{}", k % 5), data: data.clone() },
        TxSpec::Del { k } => Transaction::Delete {
            key: match k % 8 {
                5 => "emb:k0".to_string(),
                6 => "node:n0".to_string(),
                7 => "table:t0:row:1".to_string(),
                i => format!("k{i}"),
            },
        },
        TxSpec::Cas { k, exp, new } => {
            Transaction::CompareAndSwap { key: format!("k{}", k % 5), expected_data: val(*exp), new_data: val(*new) }
        },
        TxSpec::Embed { k, v } => {
            Transaction::Embed { key: format!("k{}", k % 3), vector: v.iter().map(|x| f32::from(*x) / 4.0).collect() }
        },
        TxSpec::NodeCreate { k, label } => Transaction::NodeCreate { key: format!("n{}", k % 3), label: format!("L{}", label % 2) },
        TxSpec::NodeDelete { k } => Transaction::NodeDelete { key: format!("n{}", k % 3) },
        TxSpec::Edge { a, b, t } => {
            Transaction::EdgeCreate { from: format!("n{}", a % 3), to: format!("n{}", b % 3), edge_type: format!("e{}", t % 2) }
        },
        TxSpec::TIns { t, v } => Transaction::TableInsert { table: format!("t{}", t % 2), values: val(*v) },
        TxSpec::TUpd { t, row, v } => Transaction::TableUpdate { table: format!("t{}", t % 2), row_id: u64::from(row % 3), values: val(*v) },
        TxSpec::TDel { t, row } => Transaction::TableDelete { table: format!("t{}", t % 2), row_id: u64::from(row % 3) },
    }
}

pub fn tx_strategy() -> impl Strategy<Value = TxSpec> {
    prop_oneof![
        6 => (0u8..5, 0u8..4).prop_map(|(k, v)| TxSpec::Put { k, v }),
        3 => (0u8..8).prop_map(|k| TxSpec::Del { k }),
        3 => (0u8..5, 0u8..4, 0u8..4).prop_map(|(k, exp, new)| TxSpec::Cas { k, exp, new }),
        1 => (0u8..3, prop::collection::vec(-4i8..=4, 0..4)).prop_map(|(k, v)| TxSpec::Embed { k, v }),
        1 => (0u8..3, 0u8..2).prop_map(|(k, label)| TxSpec::NodeCreate { k, label }),
        1 => (0u8..3).prop_map(|k| TxSpec::NodeDelete { k }),
        1 => (0u8..3, 0u8..3, 0u8..2).prop_map(|(a, b, t)| TxSpec::Edge { a, b, t }),
        1 => (0u8..2, 0u8..4).prop_map(|(t, v)| TxSpec::TIns { t, v }),
        1 => (0u8..2, 0u8..3, 0u8..4).prop_map(|(t, row, v)| TxSpec::TUpd { t, row, v }),
        1 => (0u8..2, 0u8..3).prop_map(|(t, row)| TxSpec::TDel { t, row }),
    ]
}

/// Delta embedding directions (dimension 4): four axes, a negative axis, two mixtures.
pub fn delta_dir(d: u8) -> [f32; 4] {
    match d % 7 {
        0 => [1.0, 0.0, 0.0, 0.0],
        1 => [0.0, 1.0, 0.0, 0.0],
        2 => [0.0, 0.0, 1.0, 0.0],
        3 => [0.0, 0.0, 0.0, 1.0],
        4 => [-1.0, 0.0, 0.0, 0.0],
        5 => [0.9, 0.1, 0.0, 0.0],
        _ => [0.5, 0.5, 0.5, 0.5],
    }
}

pub fn short(h: &[u8]) -> String {
    hex(&h[..4.min(h.len())])
}
