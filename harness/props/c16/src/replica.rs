//! Part `replica`: one block sequence applied to two fresh `TensorStateMachine`s.
//!
//! * separate mode: each replica has its own chain store (seeded with the common genesis record)
//!   and an empty data store; blocks are built by the harness with the state root computed by the
//!   harness's own implementation over the model. Both replicas must accept every block, end in the
//!   model state with the recorded root, and reject (without side effects) a block whose root or
//!   transactions were altered.
//! * wired mode: the blocks are the ones committed by a `TensorChain` leader; each replica is wired
//!   like `ClusterOrchestrator` wires it (chain and state machine share one store), seeded with the
//!   leader's genesis record.

use crate::model::*;
use crate::sut::*;
use graph_engine::GraphEngine;
use nv_engine::{pick, CaseCtx, Fail, Tier};
use proptest::prelude::*;
use serde::{Deserialize, Serialize};
use std::collections::BTreeSet;
use std::sync::Arc;
use tensor_chain::signing::ValidatorRegistry;
use tensor_chain::{compute_state_root, Block, Chain, MemoryTransport, RaftConfig, RaftNode, TensorStateMachine, Transaction};
use tensor_store::TensorStore;

#[derive(Clone, Debug, Serialize, Deserialize)]
pub struct ReplicaCase {
    pub wired: bool,
    /// per block: transactions, optional delta direction
    pub blocks: Vec<(Vec<TxSpec>, Option<u8>)>,
    /// separate mode: before block `at` a bad variant is offered (0 flipped state root, 1 root of a
    /// different transaction list, 2 a transaction altered under the recorded roots, 3 everything right
    /// except prev_hash, so that the refusal comes from the chain after the transactions were applied)
    pub bad: Option<(u16, u8, TxSpec)>,
}

pub fn strategy(t: Tier) -> impl Strategy<Value = ReplicaCase> {
    let blk = (prop::collection::vec(tx_strategy(), 1..=4), prop::option::weighted(0.5, 0u8..7));
    (
        prop::bool::weighted(0.15),
        prop::collection::vec(blk, 1..=t.pick(6usize, 8usize)),
        prop::option::weighted(0.6, (any::<u16>(), 0u8..4, tx_strategy())),
    )
        .prop_map(|(wired, blocks, bad)| ReplicaCase { wired, blocks, bad })
}

struct Replica {
    sm: TensorStateMachine,
    chain: Arc<Chain>,
    data: TensorStore,
}

/// `genesis`: (chain:block:0, chain:meta) records to seed the chain store with.
fn mk_replica(name: &str, node_id: &str, registry: &Arc<ValidatorRegistry>, genesis: Option<&State>, shared: bool) -> Result<Replica, Fail> {
    let chain_store = TensorStore::new();
    if let Some(g) = genesis {
        for (k, fields) in g {
            let mut d = tensor_store::TensorData::new();
            for (n, raw) in fields {
                let v: tensor_store::TensorValue = bitcode::deserialize(raw).map_err(|e| Fail::new("replica:setup", e.to_string()))?;
                d.set(n.clone(), v);
            }
            chain_store.put(k.clone(), d).map_err(|e| Fail::new("replica:setup", e.to_string()))?;
        }
    }
    let graph = Arc::new(GraphEngine::with_store(chain_store.clone()));
    let chain = Arc::new(Chain::with_registry(graph, node_id.to_string(), Arc::clone(registry)));
    chain.initialize().map_err(|e| Fail::new("replica:setup", e.to_string()))?;
    let transport = Arc::new(MemoryTransport::new(name.to_string()));
    let raft = Arc::new(RaftNode::new(name.to_string(), vec![], transport, RaftConfig::default()));
    let data = if shared { chain_store } else { TensorStore::new() };
    let sm = TensorStateMachine::new(chain.clone(), raft, data.clone());
    Ok(Replica { sm, chain, data })
}

fn genesis_records(store: &TensorStore) -> State {
    observe(store).into_iter().filter(|(k, _)| k == "chain:block:0" || k == "chain:meta").collect()
}

pub fn check(c: &ReplicaCase, ctx: &mut CaseCtx) -> Result<(), Fail> {
    if c.wired {
        wired(c, ctx)
    } else {
        separate(c, ctx)
    }
}

fn note_history(ctx: &mut CaseCtx, lists: &[Vec<Transaction>]) {
    // non-trivial: at least two blocks, a later one touching a key an earlier one wrote
    let mut seen: BTreeSet<String> = BTreeSet::new();
    let mut dep = false;
    for (i, l) in lists.iter().enumerate() {
        let ks: BTreeSet<String> = l.iter().map(touched_key).collect();
        if i > 0 && ks.intersection(&seen).next().is_some() {
            dep = true;
        }
        seen.extend(ks);
    }
    if dep {
        ctx.set_nontrivial();
        ctx.label("history:later-block-touches-earlier-key");
    }
}

fn separate(c: &ReplicaCase, ctx: &mut CaseCtx) -> Result<(), Fail> {
    ctx.label("mode:separate-data-store");
    let id = identity(5);
    let node_id = id.node_id();
    let registry = Arc::new(ValidatorRegistry::new());
    registry.register(&id);
    let a = mk_replica("ra", &node_id, &registry, None, false)?;
    // replica b starts from a's genesis record (a genesis block carries a wall-clock timestamp)
    let g = {
        let gb = a.chain.get_genesis().ok().flatten().ok_or_else(|| Fail::new("replica:setup", "no genesis"))?;
        let tmp = TensorStore::new();
        let mut d = tensor_store::TensorData::new();
        d.set("_block", tensor_store::TensorValue::Scalar(tensor_store::ScalarValue::Bytes(bitcode::serialize(&gb).unwrap_or_default())));
        tmp.put("chain:block:0", d).map_err(|e| Fail::new("replica:setup", e.to_string()))?;
        let mut m = tensor_store::TensorData::new();
        m.set("height", tensor_store::TensorValue::Scalar(tensor_store::ScalarValue::Int(0)));
        tmp.put("chain:meta", m).map_err(|e| Fail::new("replica:setup", e.to_string()))?;
        genesis_records(&tmp)
    };
    let b = mk_replica("rb", &node_id, &registry, Some(&g), false)?;
    if a.chain.tip_hash() != b.chain.tip_hash() {
        return Err(Fail::new("replica:setup", "seeded replica has another genesis"));
    }
    let reps = [&a, &b];
    let mut model = State::new();
    let lists: Vec<Vec<Transaction>> = c.blocks.iter().map(|(t, _)| t.iter().map(to_tx).collect()).collect();
    note_history(ctx, &lists);
    let bad_at = c.bad.as_ref().map(|(at, how, tx)| (pick(*at, lists.len()), *how, to_tx(tx)));
    for (k, txs) in lists.iter().enumerate() {
        let mut next = model.clone();
        for tx in txs {
            apply_tx(&mut next, tx);
        }
        let root = state_root(&next);
        let build = |txs: Vec<Transaction>, root: H32| -> Block {
            let mut bb = a.chain.new_block().add_transactions(txs).with_state_root(root);
            if let Some(d) = c.blocks[k].1 {
                bb = bb.with_dense_embedding(&delta_dir(d));
            }
            bb.sign_and_build(&id)
        };
        // a bad variant first: must be refused by both replicas and leave them untouched
        if let Some((at, how, alt)) = &bad_at {
            if *at == k {
                let mut bad_txs = txs.clone();
                let last = bad_txs.len() - 1;
                bad_txs[last] = alt.clone();
                let mut other = model.clone();
                for tx in &bad_txs {
                    apply_tx(&mut other, tx);
                }
                let bad: Option<(Block, &str)> = match how % 4 {
                    0 => {
                        let mut r = root;
                        r[5] ^= 0x04;
                        Some((build(txs.clone(), r), "flipped-state-root"))
                    },
                    1 if state_root(&other) != root => Some((build(txs.clone(), state_root(&other)), "root-of-other-transactions")),
                    2 if other != next => Some((build(bad_txs.clone(), root), "other-transactions-under-recorded-root")),
                    3 => {
                        let mut blk = build(txs.clone(), root);
                        blk.header.prev_hash[9] ^= 0x20;
                        blk.header.signature = id.sign(&signing_bytes(&blk.header));
                        Some((blk, "right-root-wrong-prev-hash"))
                    },
                    _ => None,
                };
                if let Some((bad, name)) = bad {
                    ctx.label(format!("bad-block:{name}"));
                    for (ri, r) in reps.iter().enumerate() {
                        let before = observe(&r.data);
                        let h0 = r.chain.height();
                        if r.sm.apply_block(&bad).is_ok() {
                            ctx.fail(format!("replica:bad-block-accepted:{name}"), format!("replica {ri} applied block {} whose state root does not match its transactions", k + 1))?;
                            return Ok(());
                        }
                        if observe(&r.data) != before || r.chain.height() != h0 {
                            ctx.fail(format!("replica:bad-block-left-traces:{name}"), format!("replica {ri}: refused block changed the store or the chain: {}", diff(&observe(&r.data), &before)))?;
                            return Ok(());
                        }
                    }
                }
            }
        }
        let block = build(txs.clone(), root);
        for (ri, r) in reps.iter().enumerate() {
            if let Err(e) = r.sm.apply_block(&block) {
                ctx.fail("replica:apply-rejected", format!("replica {ri} refused block {} ({} transactions) whose state root was computed from the documented construction: {e}", k + 1, txs.len()))?;
                return Ok(());
            }
        }
        model = next;
        let (ra, rb) = (compute_state_root(&a.data), compute_state_root(&b.data));
        match (ra, rb) {
            (Ok(x), Ok(y)) => {
                if x != y {
                    ctx.fail("replica:roots-differ", format!("after block {} replica roots are {} and {}", k + 1, short(&x), short(&y)))?;
                    return Ok(());
                }
                if x != root {
                    ctx.fail("replica:root-not-recorded", format!("after block {} the replicas compute {} but the block records {}", k + 1, short(&x), short(&root)))?;
                    return Ok(());
                }
            },
            _ => {
                ctx.fail("replica:root-error", "compute_state_root failed")?;
                return Ok(());
            },
        }
        for (ri, r) in reps.iter().enumerate() {
            let got = observe(&r.data);
            if got != model {
                ctx.fail("replica:store-not-model", format!("replica {ri} after block {}: {}", k + 1, diff(&got, &model)))?;
                return Ok(());
            }
            if r.chain.height() != (k + 1) as u64 || r.chain.tip_hash() != header_hash(&block.header) {
                ctx.fail("replica:chain-head", format!("replica {ri} head is not block {}", k + 1))?;
                return Ok(());
            }
        }
    }
    for r in reps {
        if let Err(e) = r.chain.verify_chain() {
            ctx.fail("replica:verify-failed", format!("replica chain: {e}"))?;
        }
    }
    ctx.label(format!("blocks:{}", lists.len().min(8)));
    Ok(())
}

fn wired(c: &ReplicaCase, ctx: &mut CaseCtx) -> Result<(), Fail> {
    ctx.label("mode:wired-like-cluster");
    let leader = mk_node(4, false, 1000);
    let g = genesis_records(&leader.store);
    let registry = Arc::new(ValidatorRegistry::new());
    registry.register(&identity(4));
    let lists: Vec<Vec<Transaction>> = c.blocks.iter().map(|(t, _)| t.iter().map(to_tx).collect()).collect();
    note_history(ctx, &lists);
    for (k, txs) in lists.iter().enumerate() {
        let ws = leader.chain.begin().map_err(|e| Fail::new("replica:setup", e.to_string()))?;
        for tx in txs {
            ws.add_operation(tx.clone()).map_err(|e| Fail::new("replica:setup", e.to_string()))?;
        }
        if let Some(d) = c.blocks[k].1 {
            ws.set_before_embedding(&[0.0; 4]);
            ws.compute_delta(&delta_dir(d));
        }
        leader.chain.commit(&ws).map_err(|e| Fail::new("replica:setup:commit", e.to_string()))?;
    }
    let blocks = read_chain(&leader.chain).map_err(|h| Fail::new("replica:setup", format!("leader block {h} missing")))?;
    // make sure the replicas' wall clock (milliseconds) differs from the leader's: if state roots
    // depend on it the difference is then certain, if they do not it is irrelevant
    std::thread::sleep(std::time::Duration::from_millis(3));
    let a = mk_replica("wa", &leader.node_id, &registry, Some(&g), true)?;
    let b = mk_replica("wb", &leader.node_id, &registry, Some(&g), true)?;
    for blk in &blocks[1..] {
        let h = blk.header.height;
        for (ri, r) in [&a, &b].iter().enumerate() {
            if let Err(e) = r.sm.apply_block(blk) {
                let cls = if e.to_string().contains("state_root") { "state-root" } else { "other" };
                let pos = if h == 1 { "first-block" } else { "later-block" };
                // which bookkeeping records differ between this replica and the leader?
                let (mine, theirs) = (observe(&r.data), observe(&leader.store));
                let differing: Vec<String> = mine
                    .iter()
                    .filter(|(k, f)| theirs.get(*k).is_some_and(|g| g != *f))
                    .map(|(k, f)| {
                        let g = &theirs[k];
                        format!("{k}[{}]", f.iter().filter(|(n, v)| g.get(*n) != Some(*v)).map(|(n, _)| n.as_str()).collect::<Vec<_>>().join(","))
                    })
                    .collect();
                ctx.fail(
                    format!("replica:wired:committed-block-rejected:{cls}:{pos}"),
                    format!("replica {ri} (chain and state machine on one store, as ClusterOrchestrator wires them) refused block {h} committed by the leader: {e}; records that differ from the leader's store: {differing:?}"),
                )?;
                return Ok(());
            }
        }
        // acceptance on both replicas means both recomputed the recorded root
    }
    ctx.label(format!("blocks:{}", lists.len().min(8)));
    Ok(())
}
