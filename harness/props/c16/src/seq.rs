//! Part `seq`: one chain, up to three open workspaces, generated begin / add-operation / delta /
//! commit / rollback / append_block sequences against a model of the store and the chain.

use crate::model::*;
use crate::sut::*;
use nv_engine::{pick, CaseCtx, Fail, Tier};
use proptest::prelude::*;
use relational_engine::{Column, ColumnType, Condition, RelationalEngine, Schema, Value};
use serde::{Deserialize, Serialize};
use std::collections::{BTreeSet, HashMap};
use std::sync::Arc;
use tensor_chain::{Block, ChainError, Transaction, TransactionState, TransactionWorkspace};

#[derive(Clone, Debug, Serialize, Deserialize)]
pub enum Op {
    /// does nothing (shrink target: long sequences collapse to padding)
    Nop,
    Begin,
    Tx { w: u16, tx: TxSpec },
    Delta { w: u16, dir: u8 },
    Commit { w: u16 },
    Rollback { w: u16 },
    /// commit while the node's key is absent from the validator registry (append must refuse)
    CommitUnreg { w: u16 },
    CommitClosed { c: u16 },
    RollbackClosed { c: u16 },
    TxClosed { c: u16, tx: TxSpec },
    /// public `append_block`: 0 signed by the node, 1 unsigned, 2 signed by an unregistered key,
    /// 3 proposer+signature of an unregistered key, 4 wrong height, 5 wrong prev_hash, 6 wrong tx_root,
    /// 7 signed by the node while tx_root was still zero (append computes a zero root itself): either
    /// refused, or accepted as a block that verifies
    Append { kind: u8, txs: Vec<TxSpec> },
}

#[derive(Clone, Debug, Serialize, Deserialize)]
pub struct SeqCase {
    pub merge: bool,
    pub max_txs: u8,
    /// avoid switch for the recorded rollback defect: skip rollbacks of workspaces begun before the last change
    pub avoid_stale_rollback: bool,
    /// avoid switch for the recorded first-block defect: skip unsigned/forged append_block at height 0
    pub strict_first: bool,
    /// a relational table lives in the same store (as in the query router)
    pub tables: bool,
    /// every begun workspace gets a delta embedding: 0 none, 1 axis by begin order (pairwise orthogonal), 2 all the same axis
    pub auto_delta: u8,
    /// the chain has a non-empty global codebook: auto-merge candidates go past the transition validator
    #[serde(default)]
    pub codebook: bool,
    pub ops: Vec<Op>,
}

pub fn strategy(t: Tier) -> impl Strategy<Value = SeqCase> {
    let op = prop_oneof![
        1 => Just(Op::Nop),
        8 => Just(Op::Begin),
        24 => (any::<u16>(), tx_strategy()).prop_map(|(w, tx)| Op::Tx { w, tx }),
        3 => (any::<u16>(), 0u8..7).prop_map(|(w, dir)| Op::Delta { w, dir }),
        9 => any::<u16>().prop_map(|w| Op::Commit { w }),
        2 => any::<u16>().prop_map(|w| Op::Rollback { w }),
        1 => any::<u16>().prop_map(|w| Op::CommitUnreg { w }),
        1 => any::<u16>().prop_map(|c| Op::CommitClosed { c }),
        1 => any::<u16>().prop_map(|c| Op::RollbackClosed { c }),
        1 => (any::<u16>(), tx_strategy()).prop_map(|(c, tx)| Op::TxClosed { c, tx }),
        1 => (0u8..8, prop::collection::vec(tx_strategy(), 0..3)).prop_map(|(kind, txs)| Op::Append { kind, txs }),
    ];
    let max_ops = t.pick(30usize, 40usize);
    (
        any::<bool>(),
        prop_oneof![3 => Just(0u8), 1 => Just(1u8), 1 => Just(2u8)],
        prop::bool::weighted(0.7),
        prop::bool::weighted(0.75),
        prop::bool::weighted(0.15),
        prop_oneof![4 => Just(0u8), 2 => Just(1u8), 1 => Just(2u8)],
        prop_oneof![1 => prop::collection::vec(op.clone(), 0..12), 4 => prop::collection::vec(op, 12..=max_ops)],
        prop::bool::weighted(0.25),
    )
        .prop_map(|(merge, max_txs, avoid_stale_rollback, strict_first, tables, auto_delta, ops, codebook)| SeqCase {
            codebook,
            merge,
            max_txs,
            avoid_stale_rollback,
            strict_first,
            tables,
            auto_delta,
            ops,
        })
}

struct Ws {
    h: Arc<TransactionWorkspace>,
    ops: Vec<Transaction>,
    /// store version when the workspace was begun
    begun: u64,
    uid: usize,
    delta: bool,
}

pub fn err_class(e: &ChainError) -> &'static str {
    match e {
        ChainError::ConflictDetected { .. } => "conflict",
        ChainError::TransactionFailed(m) if m.contains("max_txs_per_block") => "too-many",
        ChainError::TransactionFailed(m) if m.contains("cannot commit transaction in state") => "not-active",
        ChainError::ValidationFailed(m) if m.contains("unknown proposer") => "unknown-proposer",
        ChainError::ValidationFailed(m) if m.contains("expected height") => "lost-append-race",
        ChainError::InvalidHash { .. } => "lost-append-race",
        ChainError::ValidationFailed(_) => "validation",
        _ => "other",
    }
}

type RelImage = Vec<(u64, Vec<(String, String)>)>;

struct Run {
    node: Node,
    rel: Option<(RelationalEngine, RelImage)>,
    model_user: State,
    version: u64,
    /// (version after the commit, workspace uid, keys written)
    commit_log: Vec<(u64, usize, BTreeSet<String>)>,
    open: Vec<Ws>,
    closed: Vec<Ws>,
    next_uid: usize,
    max_txs: usize,
    merge: bool,
    codebook: bool,
}

fn rel_image(e: &RelationalEngine) -> Option<RelImage> {
    let rows = e.select("acct", Condition::True).ok()?;
    let mut v: RelImage = rows
        .into_iter()
        .map(|r| {
            let mut vals: Vec<(String, String)> = r.values.iter().map(|(k, v)| (k.clone(), format!("{v:?}"))).collect();
            vals.sort();
            (r.id, vals)
        })
        .collect();
    v.sort();
    Some(v)
}

impl Run {
    fn new(c: &SeqCase) -> Result<Self, Fail> {
        let max_txs = MAX_TXS[c.max_txs as usize % MAX_TXS.len()];
        let node = if c.codebook { mk_node_codebook(c.merge, max_txs) } else { mk_node(1, c.merge, max_txs) };
        let rel = if c.tables {
            let e = RelationalEngine::with_store(node.store.clone());
            let schema = Schema::new(vec![Column::new("id", ColumnType::Int), Column::new("name", ColumnType::String)]);
            e.create_table("acct", schema).map_err(|e| Fail::new("setup:create-table", format!("{e:?}")))?;
            for i in 0..2i64 {
                let mut m = HashMap::new();
                m.insert("id".to_string(), Value::Int(i));
                m.insert("name".to_string(), Value::String(format!("row{i}")));
                e.insert("acct", m).map_err(|e| Fail::new("setup:insert", format!("{e:?}")))?;
            }
            let img = rel_image(&e).ok_or_else(|| Fail::new("setup:select", "cannot read table"))?;
            Some((e, img))
        } else {
            None
        };
        Ok(Self {
            node,
            rel,
            model_user: State::new(),
            version: 0,
            commit_log: Vec::new(),
            open: Vec::new(),
            closed: Vec::new(),
            next_uid: 0,
            max_txs,
            merge: c.merge,
            codebook: c.codebook,
        })
    }

    /// The relational table created next to the chain is still readable with its rows.
    fn rel_intact(&self) -> Result<(), String> {
        if let Some((e, img)) = &self.rel {
            match rel_image(e) {
                Some(now) if &now == img => Ok(()),
                Some(now) => Err(format!("table 'acct' now has {} row(s), had {}", now.len(), img.len())),
                None => Err("table 'acct' can no longer be read".to_string()),
            }
        } else {
            Ok(())
        }
    }

    fn close(&mut self, w: Ws) {
        self.closed.push(w);
        if self.closed.len() > 6 {
            self.closed.remove(0);
        }
    }

    /// Checks shared by every path that must leave chain and store untouched.
    fn expect_untouched(&self, ctx: &mut CaseCtx, path: &str, pre: &State, h0: u64, tip0: [u8; 32]) -> Result<(), Fail> {
        if self.node.chain.height() != h0 || self.node.chain.tip_hash() != tip0 {
            ctx.fail(format!("seq:{path}:head-moved"), format!("height {} -> {}, tip changed: {}", h0, self.node.chain.height(), self.node.chain.tip_hash() != tip0))?;
        }
        let post = observe(&self.node.store);
        if &post != pre {
            ctx.fail(format!("seq:{path}:store-changed"), format!("store differs after {path}: {}", diff(&post, pre)))?;
        }
        if let Err(m) = self.rel_intact() {
            ctx.fail(format!("seq:{path}:relational-table-lost"), m)?;
        }
        Ok(())
    }

    fn verify_ok(&self, ctx: &mut CaseCtx, path: &str) -> Result<(), Fail> {
        if let Err(e) = self.node.chain.verify() {
            ctx.fail(format!("seq:{path}:verify-failed"), format!("verify() on a chain built through the API: {e}"))?;
        }
        Ok(())
    }

    /// Common checks after the head moved by one block that must equal `want_txs` (in some
    /// admissible order, already resolved by the caller).
    #[allow(clippy::too_many_arguments)]
    fn expect_new_block(&mut self, ctx: &mut CaseCtx, path: &str, pre: &State, h0: u64, tip0: [u8; 32], ret: [u8; 32], applied: bool) -> Result<Option<Block>, Fail> {
        let chain = &self.node.chain;
        if chain.height() != h0 + 1 {
            ctx.fail(format!("seq:{path}:height"), format!("height {} -> {} (expected +1)", h0, chain.height()))?;
            return Ok(None);
        }
        let Some(block) = chain.get_block(h0 + 1).ok().flatten() else {
            ctx.fail(format!("seq:{path}:block-missing"), format!("block {} cannot be read", h0 + 1))?;
            return Ok(None);
        };
        let Some(prev) = chain.get_block(h0).ok().flatten() else {
            ctx.fail(format!("seq:{path}:block-missing"), format!("block {h0} cannot be read"))?;
            return Ok(None);
        };
        if header_hash(&prev.header) != tip0 {
            ctx.fail(format!("seq:{path}:tip-not-hash-of-tip-block"), format!("tip before was {} but block {h0} hashes to {}", short(&tip0), short(&header_hash(&prev.header))))?;
        }
        if path != "append-foreign" {
            if let Err((k, m)) = check_link(&block, &prev, &self.node.pk, &self.node.node_id) {
                ctx.fail(format!("seq:{path}:link:{k}"), m)?;
            }
        }
        let hh = header_hash(&block.header);
        if ret != hh || chain.tip_hash() != hh {
            ctx.fail(format!("seq:{path}:returned-hash"), format!("returned {} tip {} own hash of the new header {}", short(&ret), short(&chain.tip_hash()), short(&hh)))?;
        }
        let post = observe(&self.node.store);
        // the stored record decodes to the block
        let rec = post.get(&format!("chain:block:{}", h0 + 1)).and_then(|f| f.get("_block")).and_then(|raw| bitcode::deserialize::<tensor_store::TensorValue>(raw).ok());
        let decoded = match rec {
            Some(tensor_store::TensorValue::Scalar(tensor_store::ScalarValue::Bytes(b))) => bitcode::deserialize::<Block>(&b).ok(),
            _ => None,
        };
        if decoded.as_ref() != Some(&block) {
            ctx.fail(format!("seq:{path}:stored-record"), "stored record chain:block:h does not decode to the block returned by get_block")?;
        }
        // earlier block records untouched
        for h in 0..=h0 {
            let k = format!("chain:block:{h}");
            if pre.get(&k) != post.get(&k) {
                ctx.fail(format!("seq:{path}:earlier-block-rewritten"), format!("record {k} changed"))?;
            }
        }
        // user data
        let mut want = self.model_user.clone();
        if applied {
            for tx in &block.transactions {
                apply_tx(&mut want, tx);
            }
        }
        let got = user_part(&post);
        if got != want {
            ctx.fail(format!("seq:{path}:store-not-model"), format!("store after the block differs from the model: {}", diff(&got, &want)))?;
        }
        if applied {
            let mut full = pre.clone();
            for tx in &block.transactions {
                apply_tx(&mut full, tx);
            }
            let root = state_root(&full);
            if block.header.state_root != root {
                ctx.fail(format!("seq:{path}:state-root"), format!("recorded state_root {} but the store image the block was computed on hashes to {}", short(&block.header.state_root), short(&root)))?;
            }
        }
        if let Err(m) = self.rel_intact() {
            ctx.fail(format!("seq:{path}:relational-table-lost"), m)?;
        }
        self.model_user = want;
        self.version += 1;
        Ok(Some(block))
    }

    fn commit_open(&mut self, ctx: &mut CaseCtx, i: usize, unreg: bool) -> Result<(), Fail> {
        let path = if unreg { "commit-unregistered" } else { "commit" };
        let pre = observe(&self.node.store);
        let h0 = self.node.chain.height();
        let tip0 = self.node.chain.tip_hash();
        let ws = self.open.remove(i);
        if unreg {
            let _ = self.node.chain.validator_registry().remove(&self.node.node_id);
        }
        let r = self.node.chain.commit(&ws.h);
        if unreg {
            let id = identity(1);
            self.node.chain.register_validator(&id);
        }
        let others_delta = self.open.iter().any(|o| o.delta);
        match r {
            Ok(hash) => {
                if unreg {
                    ctx.fail("seq:commit-unregistered:accepted", "commit succeeded although the proposer key was not in the validator registry")?;
                    return Ok(());
                }
                if ws.h.state() != TransactionState::Committed {
                    ctx.fail("seq:commit:state-after-ok", format!("workspace state {:?} after commit Ok", ws.h.state()))?;
                }
                if ws.ops.is_empty() {
                    ctx.label("commit:ok:empty");
                    if hash != tip0 {
                        ctx.fail("seq:commit-empty:returned-hash", "empty commit did not return the tip hash")?;
                    }
                    self.expect_untouched(ctx, "commit-empty", &pre, h0, tip0)?;
                    self.close(ws);
                    return Ok(());
                }
                if ws.ops.len() > self.max_txs {
                    ctx.fail("seq:commit:exceeds-max-accepted", format!("{} operations committed with max_txs_per_block {}", ws.ops.len(), self.max_txs))?;
                }
                // which bystanders were merged?
                let mut merged: Vec<Ws> = Vec::new();
                let mut k = 0;
                while k < self.open.len() {
                    match self.open[k].h.state() {
                        TransactionState::Committed => merged.push(self.open.remove(k)),
                        TransactionState::Active => k += 1,
                        // a merge candidate the transition validator turned down: it failed, and
                        // none of its operations may be in the block (checked below: the block
                        // holds the own operations and the merged workspaces, nothing else)
                        TransactionState::Failed if self.codebook && self.merge && ws.delta && self.open[k].delta => {
                            ctx.label("commit:ok:candidate-rejected-by-validator");
                            ctx.set_nontrivial();
                            let m = self.open.remove(k);
                            self.close(m);
                        },
                        st => {
                            ctx.fail("seq:commit:bystander-state", format!("another open workspace is {st:?} after a successful commit"))?;
                            k += 1;
                        },
                    }
                }
                if !merged.is_empty() && !(self.merge && ws.delta && merged.iter().all(|m| m.delta)) {
                    ctx.fail("seq:commit:merge-unexpected", "a workspace without delta embedding (or with auto-merge off) was merged into another commit")?;
                }
                let Some(block) = self.expect_new_block(ctx, "commit", &pre, h0, tip0, hash, true)? else { return Ok(()) };
                // content: own operations first, then whole merged workspaces in some order
                let txs = &block.transactions;
                // (merge order follows a hash map, and one workspace's list may be a prefix of another's: search)
                fn tail_is_some_order(txs: &[Transaction], left: &mut Vec<&[Transaction]>) -> bool {
                    if left.is_empty() {
                        return txs.is_empty();
                    }
                    for j in 0..left.len() {
                        let m = left[j];
                        if txs.len() >= m.len() && txs[..m.len()] == *m {
                            left.remove(j);
                            let ok = tail_is_some_order(&txs[m.len()..], left);
                            left.insert(j, m);
                            if ok {
                                return true;
                            }
                        }
                    }
                    false
                }
                let mut left: Vec<&[Transaction]> = merged.iter().map(|m| &m.ops[..]).collect();
                let ok = txs.len() >= ws.ops.len() && txs[..ws.ops.len()] == ws.ops[..] && tail_is_some_order(&txs[ws.ops.len()..], &mut left);
                let pos = txs.len();
                if !ok || pos != txs.len() {
                    ctx.fail("seq:commit:block-content", format!("block has {} transactions; workspace had {} and {} merged workspace(s) had {:?}", txs.len(), ws.ops.len(), merged.len(), merged.iter().map(|m| m.ops.len()).collect::<Vec<_>>()))?;
                }
                if txs.len() > self.max_txs {
                    ctx.fail("seq:commit:exceeds-max-accepted", format!("block of {} transactions with max_txs_per_block {}", txs.len(), self.max_txs))?;
                }
                self.verify_ok(ctx, "commit")?;
                // bookkeeping + non-triviality
                let keys: BTreeSet<String> = txs.iter().map(touched_key).collect();
                let own_keys: BTreeSet<String> = ws.ops.iter().map(touched_key).collect();
                let overlap = self.commit_log.iter().any(|(v, uid, ks)| *v > ws.begun && *uid != ws.uid && ks.intersection(&own_keys).next().is_some());
                if overlap {
                    ctx.set_nontrivial();
                    ctx.label("commit:ok:after-overlapping-commit");
                }
                ctx.label(if merged.is_empty() { "commit:ok" } else { "commit:ok:merged" });
                self.commit_log.push((self.version, ws.uid, keys));
                self.close(ws);
                for m in merged {
                    self.close(m);
                }
            },
            Err(e) => {
                let cls = err_class(&e);
                ctx.label(format!("{path}:err:{cls}"));
                let p = format!("{path}-err:{cls}");
                self.expect_untouched(ctx, &p, &pre, h0, tip0)?;
                if ctx.known_hit() {
                    return Ok(());
                }
                let allowed = if unreg {
                    matches!(cls, "unknown-proposer" | "conflict" | "too-many")
                } else {
                    match cls {
                        "too-many" => ws.ops.len() > self.max_txs || (self.merge && ws.delta && others_delta),
                        "conflict" => ws.delta && others_delta,
                        _ => false,
                    }
                };
                if !allowed || ws.ops.is_empty() {
                    ctx.fail(format!("seq:{path}:unexpected-error:{cls}"), format!("commit of an active workspace with {} operation(s) failed: {e}", ws.ops.len()))?;
                }
                if matches!(ws.h.state(), TransactionState::Active | TransactionState::Committing | TransactionState::Committed) {
                    ctx.fail(format!("seq:{path}:state-after-err"), format!("workspace state {:?} after commit Err", ws.h.state()))?;
                }
                // bystanders: still active, or failed together with a merge attempt; never committed
                let mut k = 0;
                while k < self.open.len() {
                    match self.open[k].h.state() {
                        TransactionState::Active => k += 1,
                        TransactionState::Failed if self.merge && ws.delta && self.open[k].delta => {
                            let m = self.open.remove(k);
                            self.close(m);
                        },
                        st => {
                            ctx.fail(format!("seq:{path}:bystander-state"), format!("another open workspace is {st:?} after a failed commit"))?;
                            k += 1;
                        },
                    }
                }
                self.verify_ok(ctx, &p)?;
                self.close(ws);
            },
        }
        Ok(())
    }

    fn rollback(&mut self, ctx: &mut CaseCtx, ws: &Ws, closed: bool, avoid: bool) -> Result<bool, Fail> {
        let stale = ws.begun != self.version;
        let committed = ws.h.state() == TransactionState::Committed;
        if stale && avoid && !committed {
            ctx.label("skip:stale-rollback");
            return Ok(false);
        }
        let path = if closed { "rollback-closed" } else { "rollback" };
        let pre = observe(&self.node.store);
        let h0 = self.node.chain.height();
        let tip0 = self.node.chain.tip_hash();
        let r = self.node.chain.rollback(&ws.h);
        ctx.label(format!("{path}:{}{}", if stale { "stale" } else { "fresh" }, if committed { ":committed" } else { "" }));
        if committed && r.is_ok() {
            ctx.fail("seq:rollback-closed:committed-accepted", "rollback of a committed workspace returned Ok")?;
        }
        if !closed && r.is_err() {
            ctx.fail("seq:rollback:refused", format!("rollback of an active workspace failed: {:?}", r.as_ref().err().map(|e| e.to_string())))?;
        }
        let post = observe(&self.node.store);
        if post != pre {
            if stale && !committed {
                ctx.fail(
                    format!("seq:{path}:reverts-commits-since-begin"),
                    format!("rollback restored the store image taken at begin and discarded what was committed since: {}", diff(&post, &pre)),
                )?;
            } else {
                ctx.fail(format!("seq:{path}:store-changed"), format!("store differs after rollback: {}", diff(&post, &pre)))?;
            }
        }
        if let Err(m) = self.rel_intact() {
            ctx.fail(format!("seq:{path}:relational-table-lost"), m)?;
        }
        if self.node.chain.height() != h0 || self.node.chain.tip_hash() != tip0 {
            ctx.fail(format!("seq:{path}:head-moved"), "height or tip changed by rollback")?;
        }
        if !ctx.known_hit() {
            self.verify_ok(ctx, path)?;
        }
        Ok(true)
    }

    fn append(&mut self, ctx: &mut CaseCtx, kind: u8, txs: &[TxSpec], strict_first: bool) -> Result<(), Fail> {
        let h0 = self.node.chain.height();
        let forged = matches!(kind, 1..=3);
        // a signature made over a zero tx_root does not cover the root append computes: at height 1,
        // where append checks no signature (recorded first-block finding), it is just another bad one
        if (forged || kind == 7) && h0 == 0 && strict_first {
            ctx.label("skip:forged-first-block");
            return Ok(());
        }
        let pre = observe(&self.node.store);
        let tip0 = self.node.chain.tip_hash();
        let txs: Vec<Transaction> = txs.iter().map(to_tx).collect();
        let me = identity(1);
        let foreign = identity(99);
        let b = self.node.chain.new_block().add_transactions(txs);
        let block = match kind {
            0 => b.sign_and_build(&me),
            1 => b.build(),
            2 => b.sign_and_build(&foreign),
            3 => {
                let mut blk = b.build();
                blk.header.proposer = foreign.node_id();
                blk.header.signature = foreign.sign(&signing_bytes(&blk.header));
                blk
            },
            7 => {
                let mut blk = b.build();
                blk.header.tx_root = [0u8; 32];
                blk.header.signature = me.sign(&signing_bytes(&blk.header));
                blk
            },
            _ => {
                let mut blk = b.build();
                match kind {
                    4 => blk.header.height += 1,
                    5 => blk.header.prev_hash[7] ^= 0x10,
                    _ => blk.header.tx_root[3] ^= 0x01,
                }
                blk.header.signature = me.sign(&signing_bytes(&blk.header));
                blk
            },
        };
        let r = self.node.chain.append_block(block);
        let name = ["signed", "unsigned", "foreign-signature", "foreign-proposer", "wrong-height", "wrong-prev", "wrong-tx-root", "signed-over-zero-root"][kind as usize % 8];
        match r {
            Ok(hash) => {
                ctx.label(format!("append:{name}:ok"));
                if (4..=6).contains(&kind) {
                    ctx.fail(format!("seq:append:{name}:accepted"), "append_block accepted a structurally invalid block")?;
                    return Ok(());
                }
                if forged || (kind == 7 && h0 == 0) {
                    if h0 == 0 {
                        // the block is in; the statement requires verify() to hold on every chain built through the interface
                        if self.node.chain.verify().is_err() {
                            ctx.fail(
                                "seq:append:first-block:signature-not-checked",
                                format!("append_block accepted a {name} block at height 1 and verify() now fails"),
                            )?;
                            return Ok(());
                        }
                    } else {
                        ctx.fail(format!("seq:append:{name}:accepted"), format!("append_block accepted a {name} block at height {}", h0 + 1))?;
                        return Ok(());
                    }
                }
                let p = if forged { "append-foreign" } else { "append" };
                self.expect_new_block(ctx, p, &pre, h0, tip0, hash, false)?;
                self.verify_ok(ctx, "append")?;
            },
            Err(_) => {
                ctx.label(format!("append:{name}:err"));
                if kind == 0 {
                    ctx.fail("seq:append:signed:refused", "append_block refused a well-formed block signed by the node")?;
                }
                self.expect_untouched(ctx, "append-err", &pre, h0, tip0)?;
            },
        }
        Ok(())
    }
}

pub fn check(c: &SeqCase, ctx: &mut CaseCtx) -> Result<(), Fail> {
    let mut run = Run::new(c)?;
    ctx.label(if c.merge { "cfg:merge-on" } else { "cfg:merge-off" });
    if c.tables {
        ctx.label("cfg:relational-table-in-store");
    }
    for op in &c.ops {
        match op {
            Op::Nop => {},
            Op::Begin => {
                if run.open.len() >= 3 {
                    ctx.label("skip:begin-at-3-open");
                    continue;
                }
                let pre = observe(&run.node.store);
                let h = run.node.chain.begin().map_err(|e| Fail::new("seq:begin:error", e.to_string()))?;
                run.expect_untouched(ctx, "begin", &pre, run.node.chain.height(), run.node.chain.tip_hash())?;
                let uid = run.next_uid;
                run.next_uid += 1;
                let delta = c.auto_delta % 3 != 0;
                if delta {
                    h.set_before_embedding(&[0.0; 4]);
                    h.compute_delta(&delta_dir(if c.auto_delta % 3 == 1 { (uid % 4) as u8 } else { 0 }));
                }
                run.open.push(Ws { h, ops: Vec::new(), begun: run.version, uid, delta });
            },
            Op::Tx { w, tx } => {
                if run.open.is_empty() {
                    // nothing to write into: begin a workspace first (keeps long sequences productive)
                    let h = run.node.chain.begin().map_err(|e| Fail::new("seq:begin:error", e.to_string()))?;
                    let uid = run.next_uid;
                    run.next_uid += 1;
                    let delta = c.auto_delta % 3 != 0;
                    if delta {
                        h.set_before_embedding(&[0.0; 4]);
                        h.compute_delta(&delta_dir(if c.auto_delta % 3 == 1 { (uid % 4) as u8 } else { 0 }));
                    }
                    run.open.push(Ws { h, ops: Vec::new(), begun: run.version, uid, delta });
                }
                let i = pick(*w, run.open.len());
                let t = to_tx(tx);
                if let Err(e) = run.open[i].h.add_operation(t.clone()) {
                    ctx.fail("seq:add-operation:refused", format!("add_operation on an active workspace: {e}"))?;
                }
                run.open[i].ops.push(t);
            },
            Op::Delta { w, dir } => {
                if run.open.is_empty() {
                    continue;
                }
                let i = pick(*w, run.open.len());
                run.open[i].h.set_before_embedding(&[0.0; 4]);
                run.open[i].h.compute_delta(&delta_dir(*dir));
                run.open[i].delta = true;
            },
            Op::Commit { w } | Op::CommitUnreg { w } => {
                if run.open.is_empty() {
                    continue;
                }
                // three commits out of four go to a workspace that has operations (if there is one)
                let busy: Vec<usize> = (0..run.open.len()).filter(|i| !run.open[*i].ops.is_empty()).collect();
                let i = if w & 3 != 0 && !busy.is_empty() { busy[pick(*w, busy.len())] } else { pick(*w, run.open.len()) };
                let unreg = matches!(op, Op::CommitUnreg { .. });
                if unreg && (c.codebook || run.node.chain.height() == 0 || run.open[i].ops.is_empty()) {
                    ctx.label("skip:commit-unregistered-n/a");
                    continue;
                }
                run.commit_open(ctx, i, unreg)?;
            },
            Op::Rollback { w } => {
                if run.open.is_empty() {
                    continue;
                }
                let i = pick(*w, run.open.len());
                let ws = run.open.remove(i);
                let done = run.rollback(ctx, &ws, false, c.avoid_stale_rollback)?;
                if done {
                    if !ctx.known_hit() && ws.h.state() != TransactionState::RolledBack {
                        ctx.fail("seq:rollback:state", format!("workspace state {:?} after rollback", ws.h.state()))?;
                    }
                    run.close(ws);
                } else {
                    run.open.insert(i, ws);
                }
            },
            Op::CommitClosed { c: ci } => {
                if run.closed.is_empty() {
                    continue;
                }
                let i = pick(*ci, run.closed.len());
                let pre = observe(&run.node.store);
                let (h0, tip0) = (run.node.chain.height(), run.node.chain.tip_hash());
                let r = run.node.chain.commit(&run.closed[i].h);
                ctx.label("commit-closed");
                if r.is_ok() {
                    ctx.fail("seq:commit-closed:accepted", format!("commit of a workspace in state {:?} returned Ok", run.closed[i].h.state()))?;
                }
                run.expect_untouched(ctx, "commit-closed", &pre, h0, tip0)?;
            },
            Op::RollbackClosed { c: ci } => {
                if run.closed.is_empty() {
                    continue;
                }
                let i = pick(*ci, run.closed.len());
                let ws = run.closed.remove(i);
                run.rollback(ctx, &ws, true, c.avoid_stale_rollback)?;
                run.closed.insert(i, ws);
            },
            Op::TxClosed { c: ci, tx } => {
                if run.closed.is_empty() {
                    continue;
                }
                let i = pick(*ci, run.closed.len());
                if run.closed[i].h.add_operation(to_tx(tx)).is_ok() {
                    ctx.fail("seq:add-operation:closed-accepted", format!("add_operation accepted on a workspace in state {:?}", run.closed[i].h.state()))?;
                }
            },
            // (the forged / foreign blocks are signed with the seeded node key; a codebook node generates its own)
            Op::Append { .. } if c.codebook => ctx.label("skip:append-on-codebook-node"),
            Op::Append { kind, txs } => run.append(ctx, *kind, txs, c.strict_first)?,
        }
        if ctx.known_hit() {
            // model and chain may have diverged behind a recorded defect
            return Ok(());
        }
    }
    // whole chain, harness side and product side
    let blocks = match read_chain(&run.node.chain) {
        Ok(b) => b,
        Err(h) => {
            ctx.fail("seq:final:block-missing", format!("block {h} cannot be read"))?;
            return Ok(());
        },
    };
    for w in blocks.windows(2) {
        // blocks appended through append_block by a foreign key at height 1 are excluded above (known_hit)
        if let Err((k, m)) = check_link(&w[1], &w[0], &run.node.pk, &run.node.node_id) {
            ctx.fail(format!("seq:final:link:{k}"), m)?;
        }
    }
    if let Err(m) = block_level_verify(&run.node, &blocks) {
        ctx.fail("seq:final:block-level-verify", m)?;
    }
    run.verify_ok(ctx, "final")?;
    // history(key) = the transactions naming that key, in chain order
    for i in 0..5 {
        let key = format!("k{i}");
        let want: Vec<(u64, Transaction)> = blocks
            .iter()
            .flat_map(|b| b.transactions.iter().map(move |t| (b.header.height, t)))
            .filter(|(_, t)| match t {
                Transaction::Put { key: k, .. }
                | Transaction::Delete { key: k }
                | Transaction::CompareAndSwap { key: k, .. }
                | Transaction::Embed { key: k, .. } => *k == key,
                _ => false,
            })
            .map(|(h, t)| (h, t.clone()))
            .collect();
        match run.node.chain.history(&key) {
            Ok(got) if got == want => {},
            Ok(got) => ctx.fail("seq:final:history", format!("history({key}) has {} entries, the blocks hold {}", got.len(), want.len()))?,
            Err(e) => ctx.fail("seq:final:history", format!("history({key}) failed: {e}"))?,
        }
    }
    ctx.label(format!("height:{}", run.node.chain.height().min(6)));
    Ok(())
}
