//! Construction of the system under test and the harness-side chain checks.

use crate::model::{header_hash, merkle, short, signing_bytes};
use tensor_chain::signing::{Identity, PublicIdentity};
use tensor_chain::{AutoMergeConfig, Block, ChainConfig, TensorChain};
use tensor_store::TensorStore;

pub struct Node {
    pub chain: TensorChain,
    pub store: TensorStore,
    pub node_id: String,
    pub pk: PublicIdentity,
}

pub fn identity(seed: u8) -> Identity {
    let mut b = [0x5au8; 32];
    b[0] = seed;
    b[31] = seed.wrapping_mul(31).wrapping_add(7);
    Identity::from_bytes(&b).expect("identity")
}

pub const MAX_TXS: [usize; 3] = [1000, 5, 2];

/// A chain over a fresh in-memory store, deterministic node key, registry holding that key.
/// The merge window is one hour so that whether an open workspace is a merge candidate does not
/// depend on the wall clock.
pub fn mk_node(seed: u8, merge: bool, max_txs: usize) -> Node {
    let store = TensorStore::new();
    let id = identity(seed);
    let node_id = id.node_id();
    let pk = id.verifying_key();
    let am = if merge { AutoMergeConfig::default().with_window(3_600_000) } else { AutoMergeConfig::disabled() };
    let cfg = ChainConfig::new(node_id.clone()).with_auto_merge_config(am).with_max_txs(max_txs);
    let chain = TensorChain::with_identity(store.clone(), cfg, id);
    chain.initialize().expect("initialize");
    Node { chain, store, node_id, pk }
}

/// A node whose chain has a non-empty global codebook (centroids: the four axes the generated delta
/// embeddings lie on), built through `TensorChain::with_codebook`: the auto-merge step of commit then
/// asks the transition validator about every candidate, and the sum of two axis deltas (cosine 0.707
/// to the nearest centroid, threshold 0.8) is rejected. The constructor generates the node key itself.
pub fn mk_node_codebook(merge: bool, max_txs: usize) -> Node {
    use tensor_chain::{CodebookConfig, GlobalCodebook, ValidationConfig};
    let store = TensorStore::new();
    let am = if merge { AutoMergeConfig::default().with_window(3_600_000) } else { AutoMergeConfig::disabled() };
    let cfg = ChainConfig::new("codebook-node".to_string()).with_auto_merge_config(am).with_max_txs(max_txs);
    let centroids: Vec<Vec<f32>> = (0..4)
        .map(|i| {
            let mut v = vec![0.0f32; 128];
            v[i] = 1.0;
            v
        })
        .collect();
    let chain = TensorChain::with_codebook(store.clone(), cfg, GlobalCodebook::from_centroids(centroids), CodebookConfig::default(), ValidationConfig::default());
    chain.initialize().expect("initialize");
    let node_id = chain.node_id().clone();
    let pk = chain.identity().verifying_key();
    Node { chain, store, node_id, pk }
}

/// Harness-side structural check of `block` against its predecessor: consecutive height,
/// prev_hash = own hash of the predecessor header, tx_root = own Merkle root, signature valid
/// for the own canonical bytes under the node key, proposer = node.
pub fn check_link(block: &Block, prev: &Block, pk: &PublicIdentity, node_id: &str) -> Result<(), (&'static str, String)> {
    let h = block.header.height;
    if h != prev.header.height + 1 {
        return Err(("height-not-consecutive", format!("block height {h} after {}", prev.header.height)));
    }
    let want = header_hash(&prev.header);
    if block.header.prev_hash != want {
        return Err((
            "prev-hash-mismatch",
            format!("block {h}: prev_hash {} but predecessor header hashes to {}", short(&block.header.prev_hash), short(&want)),
        ));
    }
    let root = merkle(&block.transactions);
    if block.header.tx_root != root {
        return Err(("tx-root-mismatch", format!("block {h}: tx_root {} but Merkle root of its {} transactions is {}", short(&block.header.tx_root), block.transactions.len(), short(&root))));
    }
    if block.header.proposer != node_id {
        return Err(("proposer-mismatch", format!("block {h}: proposer {} is not the committing node", block.header.proposer)));
    }
    if pk.verify(&signing_bytes(&block.header), &block.header.signature).is_err() {
        return Err(("signature-invalid", format!("block {h}: signature does not verify over the canonical header bytes")));
    }
    if block.header.timestamp < prev.header.timestamp {
        return Err(("timestamp-regressed", format!("block {h}: timestamp before predecessor")));
    }
    Ok(())
}

/// Read blocks 0..=height through the public reader; `Err(h)` = block h missing/unreadable.
pub fn read_chain(chain: &TensorChain) -> Result<Vec<Block>, u64> {
    let mut v = Vec::new();
    for h in 0..=chain.height() {
        match chain.get_block(h) {
            Ok(Some(b)) => v.push(b),
            _ => return Err(h),
        }
    }
    Ok(v)
}

/// The product's block-level verification (the pieces `verify()` is made of) over adjacent pairs.
pub fn block_level_verify(node: &Node, blocks: &[Block]) -> Result<(), String> {
    for w in blocks.windows(2) {
        w[1].verify_chain(&w[0]).map_err(|e| e.to_string())?;
        w[1].header.verify_signature(node.chain.validator_registry()).map_err(|e| e.to_string())?;
    }
    Ok(())
}
