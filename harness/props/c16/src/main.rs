//! C16 — The chain is tamper-evident; commits are atomic and deterministic.
//!
//! Parts:
//!  * `seq`     begin / add-operation / delta / commit / rollback / append_block sequences over up to
//!              three open workspaces on one `TensorChain` against a model of store and chain.
//!  * `tamper`  a chain built through the API, then one rewrite of a stored block record; `verify()`
//!              (and the block-level verification) must fail, and must pass before the rewrite.
//!  * `conc`    2–4 scripted threads committing workspaces under the deterministic scheduler with the
//!              yield points inside `TensorChain::commit`.
//!  * `replica` one block sequence applied to two fresh `TensorStateMachine`s.

mod conc;
mod model;
mod replica;
mod seq;
mod sut;
mod tamper;

use nv_engine::{main_for, PropDef, PropPart};

fn main() {
    main_for(PropDef {
        id: "C16",
        level: "exploration",
        rule: "seq: non-trivial = a successful non-empty commit of a workspace whose written keys intersect the keys committed by another workspace after this one was begun.",
        assumptions: vec![
            "generated transactions use the key alphabet k0..k4 / emb:k* / node:n* / edge:n* / table:t*; keys of the chain's own bookkeeping (chain:*, node:<id>, edge:<id>, _graph_idx:*) and _cache:* are never written by a generated transaction",
            "auto-merge runs with a one-hour merge window so that candidate selection does not depend on the wall clock",
        ],
        parts: vec![
            PropPart::new("seq", 300, 10_000, seq::strategy, seq::check).boxed(),
            PropPart::new("tamper", 300, 20_000, tamper::strategy, tamper::check).boxed(),
            PropPart::new("conc", 200, 10_000, conc::strategy, conc::check).boxed(),
            PropPart::new("replica", 100, 5_000, replica::strategy, replica::check).boxed(),
        ],
        children: vec![],
    });
}
