//! C16 — The chain is tamper-evident; commits are atomic and deterministic.
//!
//! Parts:
//!  * `seq`     begin / add-operation / delta / commit / rollback / append_block sequences over up to
//!              three open workspaces on one `TensorChain` against a model of store and chain.
//!  * `tamper`  a chain built through the API, then one rewrite of a stored block record; `verify()`
//!              (and the block-level verification) must fail, and must pass before the rewrite.
//!  * `conc`    2–4 scripted threads committing workspaces under the deterministic scheduler with the
//!              yield points inside `TensorChain::commit`.
//!  * `replica` one block sequence applied to two fresh `TensorStateMachine`s.
//!
//! The oracles re-implement the documented constructions (header hash, canonical signing bytes,
//! transaction Merkle tree, state root, per-transaction store effect) in `model.rs`; nothing of
//! the product's hashing or apply code is called by an oracle except ed25519 verification of the
//! harness-built message under the node's public key.

mod conc;
mod model;
mod replica;
mod seq;
mod sut;
mod tamper;

use nv_engine::{main_for, PropDef, PropPart};

fn main() {
    main_for(PropDef {
        id: "C16",
        level: "exploration",
        rule: "seq (<=30 ops, <=3 open workspaces, auto-merge on/off, max_txs 1000/5/2, node key in the registry): non-trivial = a successful non-empty commit of a workspace whose written keys intersect the keys committed by another workspace after this one was begun. tamper (chain of 1-5 commits, one rewrite of a stored record: header field / transaction list / one bit / removal / swap / copy / forged block): non-trivial = the rewritten block is not the tip. conc (2-4 threads x 1-2 workspaces, shared keys k0-k2 and private keys, schedule of <=40 choices): non-trivial = two commits were past their pre-image point at the same time before either had appended (from the scheduler trace). samews (2-3 real threads commit one and the same workspace at the same instant, 400 rounds per case on one chain, auto-merge off): non-trivial = every case that completed its rounds. replica (1-6 blocks on two state machines): non-trivial = a later block touches a key written by an earlier block. distinct = distinct generated case (hash of its JSON).",
        assumptions: vec![
            "generated transactions use the key alphabet k* / emb:k* / node:n* / edge:n* / table:t*; keys of the chain's own bookkeeping (chain:*, node:<id>, edge:<id>, _graph_idx:*) and _cache:* are never written by a generated transaction",
            "auto-merge runs with a one-hour merge window so that candidate selection does not depend on the wall clock; the oracle accepts any order of merged workspaces inside a block and decides 'merged' from the workspace state",
            "a commit may legitimately fail with a conflict when it and another open workspace carry delta embeddings, and with max_txs_per_block when merging makes the block too large; every other failure of an active workspace's commit is reported",
            "tamper domain = the serialized block inside the stored record (field _block); the index fields _hash/_height/_timestamp of the record, the validator signature list Block.signatures and the signature field of the (unsigned) genesis block are not covered by the statement and are excluded (counted as 'excluded:*'); chains have height >= 1 (verify() on a genesis-only chain checks nothing)",
            "replica separate mode: chain store and data store of a replica are distinct stores (TensorStateMachine::new takes them separately), replica b is seeded with replica a's genesis record because a genesis block carries a wall-clock timestamp",
            "replica wired mode sleeps 3 ms between the leader's commits and the replay so that the millisecond wall clock differs; if state roots did not depend on the clock this would be irrelevant",
            "conc: scheduler grace period 300 ms; no lock is held across the two yield points on the pinned tree, so no blocked events occur there",
        ],
        parts: vec![
            PropPart::new("seq", 10_000, 400_000, seq::strategy, seq::check).boxed(),
            PropPart::new("tamper", 12_000, 600_000, tamper::strategy, tamper::check).boxed(),
            PropPart::new("conc", 3_000, 80_000, conc::strategy, conc::check).boxed(),
            PropPart::new("replica", 3_000, 150_000, replica::strategy, replica::check).boxed(),
            PropPart::new("samews", 32, 256, conc::samews_strategy, conc::samews_check).boxed(),
        ],
        children: vec![],
    });
}
