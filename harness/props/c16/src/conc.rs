//! Part `conc`: 2–4 scripted threads begin, fill and commit workspaces on one `TensorChain` under
//! the deterministic scheduler. Yield points: `chain.commit.preimage` (pre-image taken, nothing
//! applied yet), `chain.commit.built` (operations applied and block built, not yet appended) and
//! the boundaries between script steps. A case = scripts + schedule.

use crate::model::*;
use crate::seq::err_class;
use crate::sut::*;
use nv_engine::{sched, CaseCtx, Fail, Tier};
use proptest::prelude::*;
use serde::{Deserialize, Serialize};
use std::sync::{Arc, Mutex};
use std::time::Duration;
use tensor_chain::{Transaction, TransactionState, TransactionWorkspace};

#[derive(Clone, Debug, Serialize, Deserialize)]
pub enum COp {
    Put { k: u8 },
    Del { k: u8 },
    Cas { k: u8 },
}

#[derive(Clone, Debug, Serialize, Deserialize)]
pub struct Txn {
    /// begun before the threads start (so it is an open workspace from the first step on)
    pub pre_begun: bool,
    pub ops: Vec<COp>,
    pub dir: Option<u8>,
    /// false = the workspace is left open (a bystander / merge candidate)
    pub commit: bool,
}

#[derive(Clone, Debug, Serialize, Deserialize)]
pub struct ConcCase {
    pub merge: bool,
    /// 1 = only the pre-image point yields, 2 = only the built point, 3 = both
    pub sites: u8,
    /// sequential commits before the threads start
    pub setup: u8,
    pub threads: Vec<Vec<Txn>>,
    pub schedule: Vec<u16>,
}

const PRE: &str = "chain.commit.preimage";
const BUILT: &str = "chain.commit.built";

pub fn strategy(t: Tier) -> impl Strategy<Value = ConcCase> {
    let cop = prop_oneof![
        4 => (0u8..6).prop_map(|k| COp::Put { k }),
        1 => (0u8..6).prop_map(|k| COp::Del { k }),
        1 => (0u8..6).prop_map(|k| COp::Cas { k }),
    ];
    let txn = (prop::bool::weighted(0.5), prop::collection::vec(cop, 0..4), prop::option::weighted(0.4, 0u8..7), prop::bool::weighted(0.9))
        .prop_map(|(pre_begun, ops, dir, commit)| Txn { pre_begun, ops, dir, commit });
    let thread = prop::collection::vec(txn, 1..=2);
    (
        any::<bool>(),
        prop_oneof![5 => Just(1u8), 2 => Just(2u8), 3 => Just(3u8)],
        0u8..=2,
        prop::collection::vec(thread, 2..=4),
        prop::collection::vec(any::<u16>(), 0..t.pick(40usize, 60usize)),
    )
        .prop_map(|(merge, sites, setup, threads, schedule)| ConcCase { merge, sites, setup, threads, schedule })
}

fn key_of(thread: usize, k: u8) -> String {
    if k < 3 {
        format!("k{k}")
    } else {
        format!("kp{thread}_{k}")
    }
}

/// Operations of one scripted workspace: a tagged marker write first (makes the list unique),
/// then the generated operations with tagged values.
fn ops_of(thread: usize, ti: usize, txn: &Txn) -> Vec<Transaction> {
    let tag = |i: usize| vec![0xC0 + thread as u8, ti as u8, i as u8];
    let mut v = vec![Transaction::Put { key: format!("kp{thread}_m{ti}"), data: tag(255) }];
    for (i, op) in txn.ops.iter().enumerate() {
        v.push(match op {
            COp::Put { k } => Transaction::Put { key: key_of(thread, *k), data: tag(i) },
            COp::Del { k } => Transaction::Delete { key: key_of(thread, *k) },
            COp::Cas { k } => Transaction::CompareAndSwap { key: key_of(thread, *k), expected_data: vec![], new_data: tag(i) },
        });
    }
    v
}

struct Rec {
    ws: Arc<TransactionWorkspace>,
    ops: Vec<Transaction>,
    /// None = left open; Some(Ok(hash)) / Some(Err(class, text))
    outcome: Option<Result<[u8; 32], (&'static str, String)>>,
}

/// Did two commits sit between "pre-image taken" and "append done" at the same time?
fn commits_overlapped(trace: &[(usize, &'static str)], n: usize) -> (bool, bool) {
    let mut inside = vec![0u8; n]; // 0 outside, 1 past pre-image, 2 past built
    let (mut any, mut both_built) = (false, false);
    for (t, site) in trace {
        match *site {
            PRE => inside[*t] = 1,
            BUILT => inside[*t] = 2,
            _ => inside[*t] = 0,
        }
        if inside[*t] > 0 && inside.iter().enumerate().any(|(u, s)| u != *t && *s > 0) {
            any = true;
        }
        if inside[*t] == 2 && inside.iter().enumerate().any(|(u, s)| u != *t && *s == 2) {
            both_built = true;
        }
    }
    (any, both_built)
}

pub fn check(c: &ConcCase, ctx: &mut CaseCtx) -> Result<(), Fail> {
    let node = mk_node(3, c.merge, 1000);
    let chain = &node.chain;
    let mut model = State::new();
    for i in 0..c.setup {
        let ws = chain.begin().map_err(|e| Fail::new("conc:setup", e.to_string()))?;
        let tx = Transaction::Put { key: format!("k{}", i % 3), data: vec![0xEE, i] };
        ws.add_operation(tx.clone()).map_err(|e| Fail::new("conc:setup", e.to_string()))?;
        chain.commit(&ws).map_err(|e| Fail::new("conc:setup", e.to_string()))?;
        apply_tx(&mut model, &tx);
    }
    let h_setup = chain.height();

    // workspaces begun before the threads start (first transaction of a thread only)
    let mut pre: Vec<Option<Arc<TransactionWorkspace>>> = Vec::new();
    for th in &c.threads {
        if th.first().is_some_and(|t| t.pre_begun) {
            pre.push(Some(chain.begin().map_err(|e| Fail::new("conc:setup", e.to_string()))?));
        } else {
            pre.push(None);
        }
    }

    let recs: Mutex<Vec<Rec>> = Mutex::new(Vec::new());
    let mut scripts: Vec<Box<dyn FnOnce() + Send + '_>> = Vec::new();
    for (ti, th) in c.threads.iter().enumerate() {
        let recs = &recs;
        let pre_ws = pre[ti].clone();
        scripts.push(Box::new(move || {
            let mut pre_ws = pre_ws;
            for (xi, txn) in th.iter().enumerate() {
                let ws = match pre_ws.take() {
                    Some(w) if xi == 0 => w,
                    _ => match chain.begin() {
                        Ok(w) => w,
                        Err(_) => return,
                    },
                };
                sched::op_boundary();
                let ops = ops_of(ti, xi, txn);
                for op in &ops {
                    let _ = ws.add_operation(op.clone());
                }
                if let Some(d) = txn.dir {
                    ws.set_before_embedding(&[0.0; 4]);
                    ws.compute_delta(&delta_dir(d));
                }
                sched::op_boundary();
                let outcome = if txn.commit {
                    Some(chain.commit(&ws).map_err(|e| (err_class(&e), e.to_string())))
                } else {
                    None
                };
                recs.lock().unwrap_or_else(|e| e.into_inner()).push(Rec { ws, ops, outcome });
                sched::op_boundary();
            }
        }));
    }
    let sites: &[&'static str] = match c.sites % 4 {
        1 => &[PRE],
        2 => &[BUILT],
        _ => &[PRE, BUILT],
    };
    let report = sched::run(scripts, &c.schedule, sites, Duration::from_millis(300));
    if let Some((t, m)) = report.panics.first() {
        ctx.fail("conc:panic", format!("thread {t} panicked: {m}"))?;
        return Ok(());
    }
    if report.blocked_events > 0 {
        ctx.label("scheduler:blocked-event");
    }
    let (overlap, both_built) = commits_overlapped(&report.trace, c.threads.len());
    ctx.label(["sites:?", "sites:preimage", "sites:built", "sites:both"][c.sites as usize % 4]);
    if overlap {
        ctx.set_nontrivial();
        ctx.label("overlap:two-commits-past-preimage");
    }
    if both_built {
        ctx.label("overlap:two-commits-built-before-append");
    }

    let recs = recs.into_inner().unwrap_or_else(|e| e.into_inner());
    let lost_race = recs.iter().any(|r| matches!(&r.outcome, Some(Err((cls, _))) if *cls == "lost-append-race"));
    if lost_race {
        ctx.label("commit:lost-append-race");
    }
    let pfx = if lost_race { "conc:append-race-lost:" } else { "conc:" };
    let describe = || {
        recs.iter()
            .map(|r| match &r.outcome {
                None => format!("left-open/{:?}", r.ws.state()),
                Some(Ok(_)) => format!("Ok/{:?}", r.ws.state()),
                Some(Err((cls, _))) => format!("Err({cls})/{:?}", r.ws.state()),
            })
            .collect::<Vec<_>>()
            .join(", ")
    };

    // 1. every block record up to the head is there
    let blocks = match read_chain(chain) {
        Ok(b) => b,
        Err(h) => {
            ctx.fail(
                format!("{pfx}block-record-missing"),
                format!("height() = {} but block {h} cannot be read from the store; commits: {}", chain.height(), describe()),
            )?;
            return Ok(());
        },
    };
    // 2. product verification, 3. harness verification
    if let Err(e) = chain.verify() {
        ctx.fail(format!("{pfx}verify-failed"), format!("verify() after concurrent commits: {e}; commits: {}", describe()))?;
        return Ok(());
    }
    for w in blocks.windows(2) {
        if let Err((k, m)) = check_link(&w[1], &w[0], &node.pk, &node.node_id) {
            ctx.fail(format!("{pfx}link:{k}"), m)?;
            return Ok(());
        }
    }
    // 4. each committed workspace exactly once, as a whole
    let mut remaining: Vec<&Rec> = recs.iter().filter(|r| r.ws.state() == TransactionState::Committed).collect();
    let mut home: Vec<(usize, [u8; 32])> = Vec::new(); // (index into recs by pointer identity, block hash)
    for b in &blocks[(h_setup as usize + 1)..] {
        let txs = &b.transactions;
        let mut pos = 0;
        let mut groups = 0;
        while pos < txs.len() {
            let Some(j) = remaining.iter().position(|r| r.ops[0] == txs[pos]) else {
                ctx.fail(format!("{pfx}ops-not-exactly-once"), format!("block {} holds a transaction that belongs to no committed workspace (or to one already placed): {:?}; commits: {}", b.header.height, txs[pos], describe()))?;
                return Ok(());
            };
            let r = remaining.remove(j);
            if txs.len() < pos + r.ops.len() || txs[pos..pos + r.ops.len()] != r.ops[..] {
                ctx.fail(format!("{pfx}ops-not-exactly-once"), format!("block {} holds only part of a workspace's operations", b.header.height))?;
                return Ok(());
            }
            pos += r.ops.len();
            groups += 1;
            let idx = recs.iter().position(|x| std::ptr::eq(x, r)).unwrap_or(0);
            home.push((idx, header_hash(&b.header)));
        }
        if groups > 1 {
            ctx.label("block:merged-workspaces");
        }
    }
    if !remaining.is_empty() {
        ctx.fail(format!("{pfx}ops-not-exactly-once"), format!("{} committed workspace(s) appear in no block; commits: {}", remaining.len(), describe()))?;
        return Ok(());
    }
    // 5. what commit() answered agrees with what happened
    for (i, r) in recs.iter().enumerate() {
        let st = r.ws.state();
        match &r.outcome {
            Some(Ok(hash)) => {
                let at = home.iter().find(|(idx, _)| *idx == i).map(|(_, h)| *h);
                if st != TransactionState::Committed || at != Some(*hash) {
                    ctx.fail(format!("{pfx}commit-answer-vs-chain"), format!("commit returned Ok({}) but workspace is {st:?} and its operations are in block {:?}", short(hash), at.map(|h| short(&h))))?;
                    return Ok(());
                }
                ctx.label("commit:ok");
            },
            Some(Err((cls, m))) => {
                match st {
                    TransactionState::Failed => {},
                    TransactionState::Committed if *cls == "not-active" => ctx.label("commit:err-but-merged-by-another-commit"),
                    _ => {
                        ctx.fail(format!("{pfx}commit-answer-vs-chain"), format!("commit returned Err({m}) and the workspace is {st:?}"))?;
                        return Ok(());
                    },
                }
                ctx.label(format!("commit:err:{cls}"));
            },
            None => {
                if st == TransactionState::Committing {
                    ctx.fail(format!("{pfx}workspace-stuck-committing"), "a workspace left open ended in state Committing")?;
                    return Ok(());
                }
            },
        }
    }
    // 6. store = fold of the blocks in chain order; failed commits left nothing
    for b in &blocks[(h_setup as usize + 1)..] {
        for tx in &b.transactions {
            apply_tx(&mut model, tx);
        }
    }
    let got = user_part(&observe(&node.store));
    if got != model {
        ctx.fail(format!("{pfx}store-not-fold"), format!("store differs from the fold of the blocks: {}; commits: {}", diff(&got, &model), describe()))?;
        return Ok(());
    }
    ctx.label(format!("blocks:{}", (chain.height() - h_setup).min(6)));
    Ok(())
}

// ------------------------------------------------------------------ samews

/// Part `samews`: the *same* workspace handed to 2–3 real threads that all call `commit` at the
/// same instant (spin start), `rounds` times on one chain, auto-merge off. The statement's
/// "each committed workspace once": exactly one of the racing calls may answer Ok, the chain
/// grows by exactly one readable block holding the workspace's operations once, and the store
/// shows them. Nothing here depends on which thread wins or on how long a round takes.
#[derive(Clone, Debug, Serialize, Deserialize)]
pub struct SameWsCase {
    pub threads: u8,
    pub rounds: u16,
    pub keys: Vec<u8>,
}

pub fn samews_strategy(t: Tier) -> impl Strategy<Value = SameWsCase> {
    (2u8..=3, Just(t.pick(400u16, 1500u16)), prop::collection::vec(0u8..6, 1..4)).prop_map(|(threads, rounds, keys)| SameWsCase { threads, rounds, keys })
}

pub fn samews_check(c: &SameWsCase, ctx: &mut CaseCtx) -> Result<(), Fail> {
    use std::sync::atomic::{AtomicUsize, Ordering};
    let node = mk_node(3, false, 1000);
    let chain = &node.chain;
    let n = c.threads.clamp(2, 3) as usize;
    let mut model = State::new();
    let mut contended = 0u32;
    for round in 0..c.rounds {
        let ws = chain.begin().map_err(|e| Fail::new("samews:begin", e.to_string()))?;
        let ops: Vec<Transaction> = c.keys.iter().map(|k| Transaction::Put { key: format!("k{k}"), data: vec![(round >> 8) as u8, round as u8, *k] }).collect();
        for op in &ops {
            ws.add_operation(op.clone()).map_err(|e| Fail::new("samews:add", e.to_string()))?;
        }
        let h0 = chain.height();
        let ready = AtomicUsize::new(0);
        let outcomes: Vec<Result<[u8; 32], (&'static str, String)>> = std::thread::scope(|s| {
            let hs: Vec<_> = (0..n)
                .map(|_| {
                    let (ws, ready) = (&ws, &ready);
                    s.spawn(move || {
                        ready.fetch_add(1, Ordering::SeqCst);
                        while ready.load(Ordering::SeqCst) < n {
                            std::hint::spin_loop();
                        }
                        chain.commit(ws).map_err(|e| (err_class(&e), e.to_string()))
                    })
                })
                .collect();
            hs.into_iter().map(|h| h.join().unwrap_or_else(|_| Err(("panic", "commit panicked".to_string())))).collect()
        });
        let oks: Vec<&[u8; 32]> = outcomes.iter().filter_map(|o| o.as_ref().ok()).collect();
        let describe = || outcomes.iter().map(|o| match o { Ok(h) => format!("Ok({})", short(h)), Err((c, _)) => format!("Err({c})") }).collect::<Vec<_>>().join(", ");
        if outcomes.iter().any(|o| matches!(o, Err(("panic", _)))) {
            ctx.fail("samews:panic", format!("round {round}: {}", describe()))?;
            return Ok(());
        }
        if oks.len() != 1 {
            ctx.fail("samews:ok-count", format!("round {round}: {n} threads committed the same workspace at once and {} calls answered Ok ({}); workspace is {:?}", oks.len(), describe(), ws.state()))?;
            return Ok(());
        }
        if outcomes.iter().any(|o| matches!(o, Err((cls, _)) if *cls != "not-active")) {
            contended += 1;
            ctx.fail("samews:loser-error", format!("round {round}: a racing commit of an already committing workspace answered something other than 'not active': {}", describe()))?;
            return Ok(());
        }
        let h1 = chain.height();
        let blk = chain.get_block(h1).ok().flatten();
        let in_place = blk.as_ref().is_some_and(|b| b.transactions == ops && header_hash(&b.header) == *oks[0]);
        if h1 != h0 + 1 || !in_place || ws.state() != TransactionState::Committed {
            ctx.fail(
                "samews:not-one-block",
                format!("round {round}: height {h0} -> {h1}, block at the head {} the workspace's operations under the answered hash, workspace {:?}; answers: {}", if in_place { "holds" } else { "does not hold" }, ws.state(), describe()),
            )?;
            return Ok(());
        }
        for op in &ops {
            apply_tx(&mut model, op);
        }
    }
    let _ = contended;
    if let Err(e) = chain.verify() {
        ctx.fail("samews:verify-failed", format!("verify() after {} rounds: {e}", c.rounds))?;
        return Ok(());
    }
    if read_chain(chain).is_err() {
        ctx.fail("samews:block-record-missing", "a block below the head cannot be read")?;
        return Ok(());
    }
    let got = user_part(&observe(&node.store));
    if got != model {
        ctx.fail("samews:store-not-fold", format!("store differs from the committed workspaces: {}", diff(&got, &model)))?;
        return Ok(());
    }
    ctx.set_nontrivial();
    ctx.label(format!("samews:threads:{n}"));
    Ok(())
}
