//! Part `tamper`: a chain built through the API, then ONE rewrite of a stored block record in the
//! underlying store. `verify()` and the block-level verification must pass before and fail after.

use crate::model::*;
use crate::sut::*;
use nv_engine::{pick, CaseCtx, Fail, Tier};
use proptest::prelude::*;
use serde::{Deserialize, Serialize};
use tensor_chain::{Block, Transaction};
use tensor_store::{ScalarValue, SparseVector, TensorData, TensorStore, TensorValue};

#[derive(Clone, Debug, Serialize, Deserialize)]
pub enum Tamper {
    /// one header field of block `b` (0 height, 1 prev_hash, 2 tx_root, 3 state_root, 4 timestamp,
    /// 5 proposer, 6 signature, 7 embedding, 8 codes)
    Field { b: u16, field: u8, pos: u16, bit: u8, alt: u8 },
    /// the transaction list of block `b` (0 flip a bit inside one transaction, 1 remove one,
    /// 2 duplicate one, 3 swap two, 4 add one, 5 replace one)
    Txs { b: u16, how: u8, i: u16, pos: u16, bit: u8, tx: TxSpec },
    /// one bit of the serialized record
    RawBit { b: u16, pos: u16, bit: u8 },
    Remove { b: u16 },
    Swap { a: u16, b: u16 },
    /// the record of block `from` stored a second time in place of block `to`
    Copy { from: u16, to: u16 },
    /// block `b` replaced by a block with other transactions: 0 proposer+signature of an
    /// unregistered key, 1 node as proposer signed by an unregistered key, 2 unsigned,
    /// 3 original header and signature with tx_root recomputed for the new transactions
    Forge { b: u16, how: u8, txs: Vec<TxSpec> },
}

#[derive(Clone, Debug, Serialize, Deserialize)]
pub struct TamperCase {
    /// one entry per commit: operations and an optional delta direction
    pub commits: Vec<(Vec<TxSpec>, Option<u8>)>,
    pub tamper: Tamper,
}

pub fn strategy(t: Tier) -> impl Strategy<Value = TamperCase> {
    let commit = (prop::collection::vec(tx_strategy(), 1..=4), prop::option::weighted(0.5, 0u8..7));
    let tamper = prop_oneof![
        10 => (any::<u16>(), 0u8..9, any::<u16>(), 0u8..8, any::<u8>()).prop_map(|(b, field, pos, bit, alt)| Tamper::Field { b, field, pos, bit, alt }),
        4 => (any::<u16>(), 0u8..6, any::<u16>(), any::<u16>(), 0u8..8, tx_strategy()).prop_map(|(b, how, i, pos, bit, tx)| Tamper::Txs { b, how, i, pos, bit, tx }),
        3 => (any::<u16>(), any::<u16>(), 0u8..8).prop_map(|(b, pos, bit)| Tamper::RawBit { b, pos, bit }),
        1 => any::<u16>().prop_map(|b| Tamper::Remove { b }),
        1 => (any::<u16>(), any::<u16>()).prop_map(|(a, b)| Tamper::Swap { a, b }),
        1 => (any::<u16>(), any::<u16>()).prop_map(|(from, to)| Tamper::Copy { from, to }),
        2 => (any::<u16>(), 0u8..4, prop::collection::vec(tx_strategy(), 0..3)).prop_map(|(b, how, txs)| Tamper::Forge { b, how, txs }),
    ];
    (prop::collection::vec(commit, 1..=t.pick(5usize, 7usize)), tamper).prop_map(|(commits, tamper)| TamperCase { commits, tamper })
}

fn key(h: u64) -> String {
    format!("chain:block:{h}")
}

fn read_rec(store: &TensorStore, h: u64) -> Option<(TensorData, Vec<u8>)> {
    let d = store.get(&key(h)).ok()?;
    let bytes = match d.get("_block") {
        Some(TensorValue::Scalar(ScalarValue::Bytes(b))) => b.clone(),
        _ => return None,
    };
    Some((d, bytes))
}

fn write_bytes(store: &TensorStore, h: u64, mut d: TensorData, bytes: Vec<u8>) {
    d.set("_block", TensorValue::Scalar(ScalarValue::Bytes(bytes)));
    let _ = store.put(key(h), d);
}

fn flip(v: &mut [u8], pos: u16, bit: u8) {
    if !v.is_empty() {
        let i = pick(pos, v.len());
        v[i] ^= 1 << (bit % 8);
    }
}

const FIELDS: [&str; 9] = ["height", "prev_hash", "tx_root", "state_root", "timestamp", "proposer", "signature", "embedding", "codes"];

fn mutate_field(blk: &mut Block, field: u8, pos: u16, bit: u8, alt: u8) {
    let h = &mut blk.header;
    match field % 9 {
        0 => {
            h.height = match alt % 4 {
                0 => h.height + 1,
                1 => h.height.saturating_sub(1),
                2 => h.height + 2 + u64::from(alt),
                _ => 0,
            }
        },
        1 => flip(&mut h.prev_hash, pos, bit),
        2 => flip(&mut h.tx_root, pos, bit),
        3 => flip(&mut h.state_root, pos, bit),
        4 => {
            h.timestamp = match alt % 4 {
                0 => h.timestamp + 1,
                1 => h.timestamp.saturating_sub(1),
                2 => h.timestamp + 1000 * (1 + u64::from(alt)),
                _ => h.timestamp ^ (1 << (pos % 40)),
            }
        },
        5 => match alt % 3 {
            0 => h.proposer = identity(99).node_id(),
            1 => h.proposer.push('0'),
            _ => {
                let mut b = h.proposer.clone().into_bytes();
                if !b.is_empty() {
                    let i = pick(pos, b.len());
                    b[i] = if b[i] == b'0' { b'1' } else { b'0' };
                }
                h.proposer = String::from_utf8(b).unwrap_or_default();
            },
        },
        6 => match alt % 5 {
            0 | 1 => flip(&mut h.signature, pos, bit),
            2 => h.signature.clear(),
            3 => {
                h.signature.pop();
            },
            _ => h.signature = identity(99).sign(&signing_bytes(h)),
        },
        7 => {
            let mut dense = h.delta_embedding.to_dense();
            if dense.is_empty() {
                dense = vec![0.0; 4];
            }
            let i = pick(pos, dense.len());
            dense[i] += 0.5 + f32::from(alt % 4);
            h.delta_embedding = SparseVector::from_dense(&dense);
        },
        _ => {
            if h.quantized_codes.is_empty() || alt % 2 == 0 {
                h.quantized_codes.push(u16::from(alt));
            } else {
                let i = pick(pos, h.quantized_codes.len());
                h.quantized_codes[i] ^= 1 << (bit % 16);
            }
        },
    }
}

fn mutate_txs(blk: &mut Block, how: u8, i: u16, pos: u16, bit: u8, tx: &TxSpec) {
    let txs = &mut blk.transactions;
    let n = txs.len();
    match (how % 6, n) {
        (4, _) | (_, 0) => txs.insert(pick(i, n + 1), to_tx(tx)),
        (0, _) => {
            let k = pick(i, n);
            match &mut txs[k] {
                Transaction::Put { key, data } => {
                    if data.is_empty() || bit % 2 == 0 {
                        key.push('x');
                    } else {
                        flip(data, pos, bit);
                    }
                },
                Transaction::Delete { key } | Transaction::NodeDelete { key } => key.push('x'),
                Transaction::CompareAndSwap { new_data, .. } => new_data.push(bit),
                Transaction::Embed { vector, .. } => vector.push(1.0),
                Transaction::NodeCreate { label, .. } => label.push('x'),
                Transaction::EdgeCreate { to, .. } => to.push('x'),
                Transaction::TableInsert { values, .. } | Transaction::TableUpdate { values, .. } => values.push(bit),
                Transaction::TableDelete { row_id, .. } => *row_id += 1,
                _ => {},
            }
        },
        (1, _) => {
            txs.remove(pick(i, n));
        },
        (2, _) => {
            let k = pick(i, n);
            let t = txs[k].clone();
            txs.insert(k, t);
        },
        (3, _) => {
            let a = pick(i, n);
            let b = pick(pos, n);
            txs.swap(a, b);
        },
        _ => {
            let k = pick(i, n);
            txs[k] = to_tx(tx);
        },
    }
}

pub fn check(c: &TamperCase, ctx: &mut CaseCtx) -> Result<(), Fail> {
    let node = mk_node(2, false, 1000);
    for (txs, dir) in &c.commits {
        let ws = node.chain.begin().map_err(|e| Fail::new("tamper:setup:begin", e.to_string()))?;
        for t in txs {
            ws.add_operation(to_tx(t)).map_err(|e| Fail::new("tamper:setup:add", e.to_string()))?;
        }
        if let Some(d) = dir {
            ws.set_before_embedding(&[0.0; 4]);
            ws.compute_delta(&delta_dir(*d));
        }
        node.chain.commit(&ws).map_err(|e| Fail::new("tamper:setup:commit", e.to_string()))?;
    }
    let height = node.chain.height();
    if height != c.commits.len() as u64 {
        return Err(Fail::new("tamper:setup:height", format!("{} commits gave height {height}", c.commits.len())));
    }
    // untampered: everything passes
    if let Err(e) = node.chain.verify() {
        ctx.fail("tamper:untampered:verify-failed", format!("verify() on an untouched chain: {e}"))?;
    }
    let blocks = read_chain(&node.chain).map_err(|h| Fail::new("tamper:untampered:block-missing", format!("block {h}")))?;
    for w in blocks.windows(2) {
        if let Err((k, m)) = check_link(&w[1], &w[0], &node.pk, &node.node_id) {
            ctx.fail(format!("tamper:untampered:link:{k}"), m)?;
        }
    }
    if let Err(m) = block_level_verify(&node, &blocks) {
        ctx.fail("tamper:untampered:block-level-verify", m)?;
    }

    let n = height as usize + 1;
    let store = &node.store;
    // (class, position of the touched block, detail); None = nothing was changed
    let mut touched: Vec<u64> = Vec::new();
    let class: String = match &c.tamper {
        Tamper::Field { b, field, pos, bit, alt } => {
            let h = pick(*b, n) as u64;
            let (d, _) = read_rec(store, h).ok_or_else(|| Fail::new("tamper:setup:record", "no record"))?;
            let mut blk = blocks[h as usize].clone();
            mutate_field(&mut blk, *field, *pos, *bit, *alt);
            if blk == blocks[h as usize] {
                ctx.label("noop");
                return Ok(());
            }
            if h == 0 && field % 9 == 6 {
                // the genesis block is unsigned by construction; its signature field carries no content
                ctx.label("excluded:genesis-signature-field");
                return Ok(());
            }
            write_bytes(store, h, d, bitcode::serialize(&blk).unwrap_or_default());
            touched.push(h);
            format!("field:{}", FIELDS[*field as usize % 9])
        },
        Tamper::Txs { b, how, i, pos, bit, tx } => {
            // the genesis transaction list is a recorded blind spot: go there only one time in four
            let h = if i & 3 == 0 { pick(*b, n) as u64 } else { 1 + pick(*b, n - 1) as u64 };
            let (d, _) = read_rec(store, h).ok_or_else(|| Fail::new("tamper:setup:record", "no record"))?;
            let mut blk = blocks[h as usize].clone();
            mutate_txs(&mut blk, *how, *i, *pos, *bit, tx);
            if blk == blocks[h as usize] {
                ctx.label("noop");
                return Ok(());
            }
            write_bytes(store, h, d, bitcode::serialize(&blk).unwrap_or_default());
            touched.push(h);
            // the documented tree pairs an odd node with itself, so [a,b,c] and [a,b,c,c] share a root
            if merkle(&blk.transactions) == merkle(&blocks[h as usize].transactions) {
                "transactions-same-merkle-root".to_string()
            } else {
                "transactions".to_string()
            }
        },
        Tamper::RawBit { b, pos, bit } => {
            let h = pick(*b, n) as u64;
            let (d, mut bytes) = read_rec(store, h).ok_or_else(|| Fail::new("tamper:setup:record", "no record"))?;
            flip(&mut bytes, *pos, *bit);
            let orig = &blocks[h as usize];
            let mut cls = "raw-bit:undecodable";
            if let Ok(dec) = bitcode::deserialize::<Block>(&bytes) {
                if &dec == orig {
                    ctx.label("noop");
                    return Ok(());
                }
                let mut same_but_votes = dec.clone();
                same_but_votes.signatures = orig.signatures.clone();
                if &same_but_votes == orig {
                    ctx.label("excluded:validator-signature-list");
                    return Ok(());
                }
                if h == 0 {
                    let mut g = dec.clone();
                    g.header.signature = orig.header.signature.clone();
                    if &g == orig {
                        ctx.label("excluded:genesis-signature-field");
                        return Ok(());
                    }
                }
                cls = if dec.header == orig.header { "raw-bit:transactions" } else { "raw-bit:header" };
            }
            write_bytes(store, h, d, bytes);
            touched.push(h);
            cls.to_string()
        },
        Tamper::Remove { b } => {
            let h = pick(*b, n) as u64;
            let _ = store.delete(&key(h));
            touched.push(h);
            "remove".to_string()
        },
        Tamper::Swap { a, b } => {
            let (x, y) = (pick(*a, n) as u64, pick(*b, n) as u64);
            if x == y {
                ctx.label("noop");
                return Ok(());
            }
            let (dx, dy) = (store.get(&key(x)), store.get(&key(y)));
            if let (Ok(dx), Ok(dy)) = (dx, dy) {
                let _ = store.put(key(x), dy);
                let _ = store.put(key(y), dx);
            }
            touched.push(x);
            touched.push(y);
            "swap".to_string()
        },
        Tamper::Copy { from, to } => {
            let (x, y) = (pick(*from, n) as u64, pick(*to, n) as u64);
            if x == y {
                ctx.label("noop");
                return Ok(());
            }
            if let Ok(dx) = store.get(&key(x)) {
                let _ = store.put(key(y), dx);
            }
            touched.push(y);
            "copy".to_string()
        },
        Tamper::Forge { b, how, txs } => {
            let h = 1 + pick(*b, n - 1) as u64;
            let (d, _) = read_rec(store, h).ok_or_else(|| Fail::new("tamper:setup:record", "no record"))?;
            let orig = &blocks[h as usize];
            let mut blk = orig.clone();
            blk.transactions = txs.iter().map(to_tx).collect();
            if blk.transactions == orig.transactions {
                ctx.label("noop");
                return Ok(());
            }
            blk.header.tx_root = merkle(&blk.transactions);
            let foreign = identity(99);
            match how % 4 {
                0 => {
                    blk.header.proposer = foreign.node_id();
                    blk.header.signature = foreign.sign(&signing_bytes(&blk.header));
                },
                1 => blk.header.signature = foreign.sign(&signing_bytes(&blk.header)),
                2 => blk.header.signature.clear(),
                _ => {},
            }
            write_bytes(store, h, d, bitcode::serialize(&blk).unwrap_or_default());
            touched.push(h);
            if how % 4 == 3 && blk.header.tx_root == orig.header.tx_root {
                "transactions-same-merkle-root".to_string()
            } else {
                format!("forge:{}", ["foreign-proposer", "foreign-signature", "unsigned", "reused-signature"][*how as usize % 4])
            }
        },
    };

    let min = touched.iter().copied().min().unwrap_or(0);
    let where_ = if touched.contains(&0) {
        "genesis"
    } else if touched.iter().all(|h| *h == height) {
        "tip"
    } else {
        "inner"
    };
    if min < height {
        ctx.set_nontrivial();
    }
    ctx.label(format!("{class}:{where_}"));

    let verdict = node.chain.verify();
    if verdict.is_ok() {
        ctx.fail(
            format!("tamper:{class}:{where_}:undetected"),
            format!("verify() is Ok after rewriting the stored record of block {touched:?} (chain height {height}): {:?}", c.tamper),
        )?;
        return Ok(());
    }
    // block-level verification over what the readers now return
    let bl = match read_chain(&node.chain) {
        Ok(now) => block_level_verify(&node, &now).is_err(),
        Err(_) => true,
    };
    // pairwise block verification checks a block against its predecessor, so it cannot cover the
    // genesis block's own content; integrity verification of the chain (verify(), above) is what the
    // property states
    if !bl && where_ != "genesis" {
        ctx.fail(format!("tamper:{class}:{where_}:block-level-undetected"), "verify() fails but every adjacent pair passes Block::verify_chain + verify_signature")?;
    }
    Ok(())
}
