#!/bin/sh
# mut.sh <name> <python-snippet operating on variable s (file text)> <file relative to repo>
# applies the mutation in the scratch worktree, runs the quick tier, prints the verdict, reverts.
NAME=$1; FILE=$3
R=/tmp/nvm/c04/repo
git -C $R checkout -- . >/dev/null 2>&1
python3 - "$R/$FILE" <<PY || exit 3
import sys
p=sys.argv[1]; s=open(p).read(); o=s
$2
assert s!=o, "mutation did not change the file"
open(p,'w').write(s)
PY
echo "== mutation $NAME: $(git -C $R diff --stat | tail -1)"
git -C $R diff -U0 | grep -E "^[-+][^-+]" | head -8
/verif/tools/mutcheck.sh c04 sync >/dev/null 2>&1
# the scratch copy only needs this property's crate (sibling crates may be half-written by other agents)
for d in /tmp/nvm/c04/verif/harness/props/*; do case "$d" in */c04) ;; *) rm -rf "$d";; esac; done
/verif/tools/mutcheck.sh c04 run C04 quick 2>&1 | grep -v "^proptest" | grep -v KNOWN | cut -c1-700 | tail -4
git -C $R checkout -- . >/dev/null 2>&1
