#!/bin/sh
# build + run helper used while developing: it.sh [scale] [seed]
cd /verif/harness
for i in 1 2 3 4 5 6 7 8 9 10 11 12; do
  out=$(RUSTFLAGS="--cfg neumann_verif" CARGO_NET_OFFLINE=true cargo build --release -p nv_c04 2>&1)
  if echo "$out" | grep -q "failed to load manifest"; then sleep 15; else break; fi
done
echo "$out" | grep -E "^(error|warning)" -A 12 | head -80
cd /verif && NV_SCALE=${1:-20} VERIF_SEED=${2:-0} ./target/release/nv_c04 check --tier quick 2>&1 | grep -v "^proptest" | cut -c1-1500 | tail -${3:-12}
