#!/usr/bin/env python3
"""Add / replace one C04 entry in /verif/known_findings.json (re-reads the file, touches only C04 entries).
usage: known.py add <sig> <what>   |   known.py del <sig>   |   known.py list"""
import json, sys, fcntl
P = "/verif/known_findings.json"
def main():
    cmd = sys.argv[1]
    with open(P, "r+") as f:
        fcntl.flock(f, fcntl.LOCK_EX)
        doc = json.load(f)
        known = doc.setdefault("known", [])
        if cmd == "list":
            for k in known:
                if k["property"] == "C04":
                    print(k["sig"], "::", k["what"])
            return
        sig = sys.argv[2]
        known[:] = [k for k in known if not (k["property"] == "C04" and k["sig"] == sig)]
        if cmd == "add":
            known.append({"property": "C04", "sig": sig, "what": sys.argv[3]})
        f.seek(0); f.truncate()
        json.dump(doc, f, indent=2, ensure_ascii=False); f.write("\n")
main()
