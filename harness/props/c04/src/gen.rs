//! Generators: schema, operation sequences, probes. Every random choice is a proptest strategy.

use crate::types::*;
use proptest::prelude::*;
use proptest::sample::select;
use serde::{Deserialize, Serialize};

#[derive(Clone, Debug, Serialize, Deserialize)]
pub enum Dml {
    Insert { vals: Vec<V>, omit_nulls: bool },
    Update { cond: Cond, sets: Vec<(u8, V)> },
    Delete { cond: Cond },
}

#[derive(Clone, Debug, Serialize, Deserialize)]
pub enum Op {
    Dml(Dml),
    BatchInsert { rows: Vec<Vec<V>>, omit_nulls: bool },
    CreateIndex(Col),
    DropIndex(Col),
    CreateBtree(Col),
    DropBtree(Col),
    Materialize(Vec<u8>),
    /// explicit transaction: steps through tx_insert/tx_update/tx_delete, then commit or rollback
    Tx { steps: Vec<Dml>, commit: bool },
    /// UPDATE / DELETE sent as SQL text through QueryRouter::execute_parsed when the statement can be
    /// written in the grammar (otherwise through the API)
    TextDml(Dml),
    /// run every probe now
    Check,
}

#[derive(Clone, Debug, Serialize, Deserialize)]
pub struct Probe {
    pub cond: Cond,
    pub limit: u8,
    pub offset: u8,
    pub batch: u8,
    pub agg: u8,
}

#[derive(Clone, Debug, Serialize, Deserialize)]
pub struct Case {
    pub cols: Vec<ColDef>,
    pub ops: Vec<Op>,
    pub probes: Vec<Probe>,
    /// `budget` part: RelationalConfig::max_btree_entries of the engine (distinct ordered-index
    /// keys it may hold); statements that would exceed it are refused with ResultTooLarge
    #[serde(default)]
    pub budget: Option<u8>,
}

// ------------------------------------------------------------------ value pools

fn ints() -> BoxedStrategy<V> {
    prop_oneof![
        5 => select(vec![0i64, 1, 2, 5]),
        3 => select(vec![-1i64, 3, 4, 6, 7, -5, 100, -100]),
        2 => select(vec![i64::MIN, i64::MAX, i64::MIN + 1, i64::MAX - 1]),
    ]
    .prop_map(V::I)
    .boxed()
}

fn floats() -> BoxedStrategy<V> {
    prop_oneof![
        5 => select(vec![0.0f64, -0.0, 1.0, 2.5]),
        3 => select(vec![-1.0f64, 0.5, 3.0, 7.25, 0.999_999_999_999_999_9, 1.000_000_000_000_000_2]),
        3 => select(vec![f64::NAN, f64::INFINITY, f64::NEG_INFINITY, 5e-324, -5e-324, f64::MIN_POSITIVE, f64::MAX, f64::MIN]),
    ]
    .prop_map(|f| V::F(Fl(f)))
    .boxed()
}

fn strings() -> BoxedStrategy<V> {
    prop_oneof![
        5 => select(vec!["", "a", "b", "ab"]),
        3 => select(vec!["B", "é", "日本", "z", "aa", "ü"]),
        1 => select(vec!["a b", "it's", "z\\", "a=b", "x AND y", "%"]),
    ]
    .prop_map(|s| V::S(s.to_string()))
    .boxed()
}

fn bools() -> BoxedStrategy<V> {
    any::<bool>().prop_map(V::B).boxed()
}

fn bytes() -> BoxedStrategy<V> {
    select(vec![vec![], vec![0u8], vec![1], vec![0, 0], vec![255], vec![1, 2, 3], vec![0x80]])
        .prop_map(V::Y)
        .boxed()
}

fn jsons() -> BoxedStrategy<V> {
    select(vec!["null", "1", "2", "\"a\"", "{\"k\":1}", "[1,2]", "true"])
        .prop_map(|s| V::J(s.to_string()))
        .boxed()
}

pub fn typed(t: T) -> BoxedStrategy<V> {
    match t {
        T::Int => ints(),
        T::Float => floats(),
        T::Str => strings(),
        T::Bool => bools(),
        T::Bytes => bytes(),
        T::Json => jsons(),
    }
}

fn any_value() -> BoxedStrategy<V> {
    prop_oneof![
        1 => Just(V::Null),
        2 => ints(),
        2 => floats(),
        2 => strings(),
        1 => bools(),
        1 => bytes(),
        1 => jsons(),
    ]
    .boxed()
}

/// A cell for an insert/update: well typed except for a small share that must be rejected.
fn cell(c: &ColDef) -> BoxedStrategy<V> {
    let null_w = if c.nullable { 25 } else { 1 };
    prop_oneof![
        97 => typed(c.ty),
        null_w => Just(V::Null),
        1 => any_value(),
    ]
    .boxed()
}

/// A cell that is always accepted (used inside explicit transactions).
fn good_cell(c: &ColDef) -> BoxedStrategy<V> {
    if c.nullable {
        prop_oneof![4 => typed(c.ty), 1 => Just(V::Null)].boxed()
    } else {
        typed(c.ty)
    }
}

fn row(cols: &[ColDef], good: bool) -> BoxedStrategy<Vec<V>> {
    cols.iter().map(|c| if good { good_cell(c) } else { cell(c) }).collect::<Vec<_>>().boxed()
}

// ------------------------------------------------------------------ conditions

fn literal_for(t: Option<T>) -> BoxedStrategy<V> {
    match t {
        // `_id`: small ids dominate
        None => prop_oneof![
            8 => (0i64..14).prop_map(V::I),
            1 => ints(),
            1 => any_value(),
        ]
        .boxed(),
        Some(t) => prop_oneof![
            17 => typed(t),
            1 => Just(V::Null),
            2 => any_value(),
        ]
        .boxed(),
    }
}

fn leaf(cols: &[ColDef]) -> BoxedStrategy<Cond> {
    let mut choices: Vec<(Col, Option<T>)> = vec![(Col::Id, None)];
    for (i, c) in cols.iter().enumerate() {
        // user columns three times as likely as `_id`
        for _ in 0..3 {
            choices.push((Col::C(i as u8), Some(c.ty)));
        }
    }
    let ops = select(vec![Cmp::Eq, Cmp::Eq, Cmp::Ne, Cmp::Lt, Cmp::Le, Cmp::Gt, Cmp::Ge]);
    (select(choices), ops)
        .prop_flat_map(|((col, t), op)| literal_for(t).prop_map(move |lit| Cond::Leaf(col, op, lit)))
        .boxed()
}

pub fn cond(cols: &[ColDef]) -> BoxedStrategy<Cond> {
    let base = prop_oneof![24 => leaf(cols), 1 => Just(Cond::True)];
    base.prop_recursive(3, 10, 2, |inner| {
        prop_oneof![
            3 => (inner.clone(), inner.clone()).prop_map(|(a, b)| Cond::And(Box::new(a), Box::new(b))),
            2 => (inner.clone(), inner).prop_map(|(a, b)| Cond::Or(Box::new(a), Box::new(b))),
        ]
    })
    .boxed()
}

// ------------------------------------------------------------------ ops

fn col_ref(n: usize) -> BoxedStrategy<Col> {
    let mut v: Vec<Col> = (0..n).map(|i| Col::C(i as u8)).collect();
    // user columns twice as likely as `_id`
    v.extend((0..n).map(|i| Col::C(i as u8)));
    v.push(Col::Id);
    select(v).boxed()
}

fn dml(cols: &[ColDef], good: bool) -> BoxedStrategy<Dml> {
    let n = cols.len();
    let cols2 = cols.to_vec();
    let set = (0..n as u8).prop_flat_map(move |i| {
        let c = &cols2[i as usize];
        (Just(i), if good { good_cell(c) } else { cell(c) })
    });
    prop_oneof![
        6 => (row(cols, good), any::<bool>()).prop_map(|(vals, omit_nulls)| Dml::Insert { vals, omit_nulls }),
        3 => (cond(cols), prop::collection::vec(set, 1..=2)).prop_map(|(cond, sets)| Dml::Update { cond, sets }),
        2 => cond(cols).prop_map(|cond| Dml::Delete { cond }),
    ]
    .boxed()
}

fn op(cols: &[ColDef]) -> BoxedStrategy<Op> {
    let n = cols.len();
    prop_oneof![
        40 => dml(cols, false).prop_map(Op::Dml),
        8 => (prop::collection::vec(row(cols, false), 1..8), any::<bool>())
            .prop_map(|(rows, omit_nulls)| Op::BatchInsert { rows, omit_nulls }),
        7 => col_ref(n).prop_map(Op::CreateIndex),
        3 => col_ref(n).prop_map(Op::DropIndex),
        7 => col_ref(n).prop_map(Op::CreateBtree),
        3 => col_ref(n).prop_map(Op::DropBtree),
        2 => prop::collection::vec(0..n as u8, 1..=2).prop_map(Op::Materialize),
        6 => (prop::collection::vec(dml(cols, true), 1..4), any::<bool>()).prop_map(|(steps, commit)| Op::Tx { steps, commit }),
        3 => Just(Op::Check),
        6 => dml(cols, false).prop_map(|d| match d {
            Dml::Insert { .. } => Op::Check,
            d => Op::TextDml(d),
        }),
    ]
    .boxed()
}

fn probe(cols: &[ColDef]) -> BoxedStrategy<Probe> {
    (cond(cols), 0u8..6, 0u8..5, 1u8..5, 0..cols.len() as u8)
        .prop_map(|(cond, limit, offset, batch, agg)| Probe { cond, limit, offset, batch, agg })
        .boxed()
}

fn col_def() -> BoxedStrategy<ColDef> {
    (
        prop_oneof![
            4 => Just(T::Int),
            4 => Just(T::Float),
            3 => Just(T::Str),
            1 => Just(T::Bool),
            1 => Just(T::Bytes),
            1 => Just(T::Json),
        ],
        any::<bool>(),
    )
        .prop_map(|(ty, nullable)| ColDef { ty, nullable })
        .boxed()
}

pub fn case_strategy(max_ops: usize) -> BoxedStrategy<Case> {
    prop::collection::vec(col_def(), 1..=4)
        .prop_flat_map(move |cols| {
            let ops = prop::collection::vec(op(&cols), 0..=max_ops);
            let probes = prop::collection::vec(probe(&cols), 3..=8);
            (Just(cols), ops, probes)
        })
        .prop_map(|(cols, ops, probes)| Case { cols, ops, probes, budget: None })
        .boxed()
}

/// The `budget` part: the same operation sequences against an engine that may hold only 1..=6
/// distinct ordered-index keys, with an ordered index created early. Statements are then refused
/// half-way (ResultTooLarge); whatever a refused statement leaves behind, index reads and scans
/// must still agree. SQL-text statements go through the API here (the refusal is an API error).
pub fn budget_strategy() -> BoxedStrategy<Case> {
    (case_strategy(30), 1u8..=6, any::<u8>(), any::<u8>())
        .prop_flat_map(|(c, b, sel, at)| {
            // single-row updates of the indexed column, addressed by row id (one transaction,
            // rolled back, at the end of the sequence): rows sharing a key are moved out of it one by
            // one, some of the moves refused for lack of budget
            let ci = (sel % c.cols.len() as u8) as usize;
            let touch = (1i64..7, good_cell(&c.cols[ci]));
            (Just(c), Just(b), Just(sel), Just(at), prop::collection::vec(touch, 0..5))
        })
        .prop_map(|(mut c, b, sel, at, touches)| {
            c.budget = Some(b);
            let col = Col::C(sel % c.cols.len() as u8);
            let Col::C(ci) = col else { unreachable!() };
            if let Some((_, v)) = touches.first() {
                if !v.is_null() {
                    c.probes.push(Probe { cond: Cond::Leaf(col, Cmp::Le, v.clone()), limit: 0, offset: 0, batch: 1, agg: 0 });
                    c.probes.push(Probe { cond: Cond::Leaf(col, Cmp::Ge, v.clone()), limit: 0, offset: 0, batch: 1, agg: 0 });
                }
            }
            let tail: Vec<Dml> = touches.into_iter().map(|(id, v)| Dml::Update { cond: Cond::Leaf(Col::Id, Cmp::Eq, V::I(id)), sets: vec![(ci, v)] }).collect();
            let mut ops: Vec<Op> = c
                .ops
                .drain(..)
                .map(|o| match o {
                    Op::TextDml(d) => Op::Dml(d),
                    o => o,
                })
                .collect();
            // half of the cases index the empty table (the build cannot be refused then, the
            // budget fills up with the rows that follow)
            let pos = if at & 1 == 1 { 0 } else { (at as usize * (ops.len() / 2 + 1)) >> 8 };
            ops.insert(pos, Op::CreateBtree(col));
            // runs of consecutive single statements become one explicit transaction (two in
            // three rolled back): a refused statement is then followed by more statements of
            // the same transaction and by the replay of its undo log
            let mut grouped: Vec<Op> = Vec::with_capacity(ops.len());
            let mut run: Vec<Dml> = Vec::new();
            let mut groups = 0usize;
            let mut flush = |run: &mut Vec<Dml>, grouped: &mut Vec<Op>| {
                match run.len() {
                    0 => {},
                    1 => grouped.push(Op::Dml(run.pop().unwrap())),
                    _ => {
                        groups += 1;
                        grouped.push(Op::Tx { steps: std::mem::take(run), commit: (groups + at as usize) % 3 == 0 });
                    },
                }
            };
            for o in ops {
                match o {
                    Op::Dml(d) if sel & 0x80 != 0 => run.push(d),
                    o => {
                        flush(&mut run, &mut grouped);
                        grouped.push(o);
                    },
                }
            }
            flush(&mut run, &mut grouped);
            if !tail.is_empty() {
                grouped.push(Op::Tx { steps: tail, commit: false });
                grouped.push(Op::Check);
            }
            let ops = grouped;
            c.ops = ops;
            c
        })
        .boxed()
}

/// A table of `n` rows built by cycling through a few base rows (compact in the replay file),
/// then a short op sequence and probes. 64+ rows: multi-word bitmaps in the vectorised filter;
/// 1000+ rows: parallel aggregate paths, several batches of the default streaming cursor.
#[derive(Clone, Debug, Serialize, Deserialize)]
pub struct BigCase {
    pub cols: Vec<ColDef>,
    pub base: Vec<Vec<V>>,
    pub n: u16,
    pub stride: u8,
    pub omit_nulls: bool,
    pub ops: Vec<Op>,
    pub probes: Vec<Probe>,
}

impl BigCase {
    pub fn expand(&self) -> Case {
        let k = self.base.len();
        let step = self.stride as usize * 2 + 1;
        let rows: Vec<Vec<V>> = (0..self.n as usize).map(|i| self.base[(i * step + i / k) % k].clone()).collect();
        let mut ops = vec![Op::BatchInsert { rows, omit_nulls: self.omit_nulls }];
        ops.extend(self.ops.iter().cloned());
        Case { cols: self.cols.clone(), ops, probes: self.probes.clone(), budget: None }
    }
}

pub fn big_strategy(max_ops: usize) -> BoxedStrategy<BigCase> {
    prop::collection::vec(col_def(), 1..=3)
        .prop_flat_map(move |cols| {
            let base = prop::collection::vec(row(&cols, true), 3..20);
            let n = prop_oneof![2 => 64u16..260, 3 => 1000u16..1300];
            let ops = prop::collection::vec(op(&cols), 0..=max_ops);
            let probes = prop::collection::vec(probe(&cols), 3..=6);
            (Just(cols), base, n, any::<u8>(), any::<bool>(), ops, probes)
        })
        .prop_map(|(cols, base, n, stride, omit_nulls, ops, probes)| BigCase { cols, base, n, stride, omit_nulls, ops, probes })
        .boxed()
}
