//! Case vocabulary of C04 (values, schema, condition trees), the harness's own evaluator of
//! condition trees, and the conversions to the product's types.
//!
//! The evaluator is written from the documented semantics of `relational_engine::Condition`:
//!   * `Eq` is value equality: same variant and equal payload; `NULL = NULL` holds; floats compare
//!     by IEEE equality (`NaN` equals nothing, `0.0 = -0.0`); different variants are never equal.
//!   * `Ne` is the negation of `Eq` (so `NULL != 5` holds, `NaN != NaN` holds).
//!   * `Lt/Le/Gt/Ge` are defined only inside one of Int, Float, String, Bytes, Json; anything
//!     involving NULL, Bool, NaN or two different variants is not ordered and yields false.
//!   * `_id` is the row id as an Int.
//! It shares no code with the product; every (row, condition) verdict is additionally compared with
//! `Condition::evaluate` (signature `oracle-drift`).

use relational_engine::{Column, ColumnType, Condition, Schema, Value};
use serde::{Deserialize, Deserializer, Serialize, Serializer};
use std::cmp::Ordering;

/// f64 that survives JSON (NaN, infinities, -0.0 are written as text).
#[derive(Clone, Copy, Debug)]
pub struct Fl(pub f64);

impl Serialize for Fl {
    fn serialize<S: Serializer>(&self, s: S) -> Result<S::Ok, S::Error> {
        s.serialize_str(&format!("{:?}", self.0))
    }
}

impl<'de> Deserialize<'de> for Fl {
    fn deserialize<D: Deserializer<'de>>(d: D) -> Result<Self, D::Error> {
        let s = String::deserialize(d)?;
        s.parse::<f64>().map(Fl).map_err(serde::de::Error::custom)
    }
}

/// A cell value / literal.
#[derive(Clone, Debug, Serialize, Deserialize)]
pub enum V {
    Null,
    I(i64),
    F(Fl),
    S(String),
    B(bool),
    Y(Vec<u8>),
    /// canonical JSON text (equal to `to_string()` of its parse)
    J(String),
}

#[derive(Clone, Copy, Debug, PartialEq, Eq, Serialize, Deserialize)]
pub enum T {
    Int,
    Float,
    Str,
    Bool,
    Bytes,
    Json,
}

impl T {
    pub fn name(self) -> &'static str {
        match self {
            T::Int => "int",
            T::Float => "float",
            T::Str => "string",
            T::Bool => "bool",
            T::Bytes => "bytes",
            T::Json => "json",
        }
    }
}

impl V {
    pub fn is_null(&self) -> bool {
        matches!(self, V::Null)
    }
    pub fn has_type(&self, t: T) -> bool {
        matches!(
            (self, t),
            (V::I(_), T::Int) | (V::F(_), T::Float) | (V::S(_), T::Str) | (V::B(_), T::Bool) | (V::Y(_), T::Bytes) | (V::J(_), T::Json)
        )
    }
    /// class used in labels / signatures (never the value itself)
    pub fn class(&self) -> &'static str {
        match self {
            V::Null => "null",
            V::I(i) if *i == i64::MIN || *i == i64::MAX => "int-extreme",
            V::I(i) if *i < 0 => "int-neg",
            V::I(_) => "int",
            V::F(f) if f.0.is_nan() => "nan",
            V::F(f) if f.0.is_infinite() => "inf",
            V::F(f) if f.0 == 0.0 && f.0.is_sign_negative() => "negzero",
            V::F(f) if f.0 == 0.0 => "zero",
            V::F(f) if f.0.is_subnormal() => "subnormal",
            V::F(_) => "float",
            V::S(s) if s.is_empty() => "str-empty",
            V::S(s) if !s.is_ascii() => "str-nonascii",
            V::S(_) => "str",
            V::B(_) => "bool",
            V::Y(_) => "bytes",
            V::J(_) => "json",
        }
    }
}

#[derive(Clone, Debug, Serialize, Deserialize)]
pub struct ColDef {
    pub ty: T,
    pub nullable: bool,
}

#[derive(Clone, Copy, Debug, PartialEq, Eq, PartialOrd, Ord, Serialize, Deserialize)]
pub enum Col {
    /// the `_id` pseudo-column
    Id,
    C(u8),
}

impl Col {
    pub fn name(self) -> String {
        match self {
            Col::Id => "_id".to_string(),
            Col::C(i) => col_name(i as usize),
        }
    }
}

pub fn col_name(i: usize) -> String {
    format!("c{i}")
}

#[derive(Clone, Copy, Debug, PartialEq, Eq, Serialize, Deserialize)]
pub enum Cmp {
    Eq,
    Ne,
    Lt,
    Le,
    Gt,
    Ge,
}

impl Cmp {
    pub fn sym(self) -> &'static str {
        match self {
            Cmp::Eq => "=",
            Cmp::Ne => "!=",
            Cmp::Lt => "<",
            Cmp::Le => "<=",
            Cmp::Gt => ">",
            Cmp::Ge => ">=",
        }
    }
    pub fn is_range(self) -> bool {
        matches!(self, Cmp::Lt | Cmp::Le | Cmp::Gt | Cmp::Ge)
    }
}

#[derive(Clone, Debug, Serialize, Deserialize)]
pub enum Cond {
    True,
    Leaf(Col, Cmp, V),
    And(Box<Cond>, Box<Cond>),
    Or(Box<Cond>, Box<Cond>),
}

impl Cond {
    pub fn leaves<'a>(&'a self, out: &mut Vec<(&'a Col, &'a Cmp, &'a V)>) {
        match self {
            Cond::True => {},
            Cond::Leaf(c, o, v) => out.push((c, o, v)),
            Cond::And(a, b) | Cond::Or(a, b) => {
                a.leaves(out);
                b.leaves(out);
            },
        }
    }
    pub fn has_true(&self) -> bool {
        match self {
            Cond::True => true,
            Cond::Leaf(..) => false,
            Cond::And(a, b) | Cond::Or(a, b) => a.has_true() || b.has_true(),
        }
    }
    pub fn depth(&self) -> usize {
        match self {
            Cond::True | Cond::Leaf(..) => 1,
            Cond::And(a, b) | Cond::Or(a, b) => 1 + a.depth().max(b.depth()),
        }
    }
}

// ------------------------------------------------------------------ harness evaluator

fn v_eq(a: &V, b: &V) -> bool {
    match (a, b) {
        (V::Null, V::Null) => true,
        (V::I(x), V::I(y)) => x == y,
        (V::F(x), V::F(y)) => x.0 == y.0,
        (V::S(x), V::S(y)) => x == y,
        (V::B(x), V::B(y)) => x == y,
        (V::Y(x), V::Y(y)) => x == y,
        (V::J(x), V::J(y)) => x == y,
        _ => false,
    }
}

fn v_ord(a: &V, b: &V) -> Option<Ordering> {
    match (a, b) {
        (V::I(x), V::I(y)) => Some(x.cmp(y)),
        (V::F(x), V::F(y)) => {
            if x.0.is_nan() || y.0.is_nan() {
                None
            } else if x.0 < y.0 {
                Some(Ordering::Less)
            } else if x.0 > y.0 {
                Some(Ordering::Greater)
            } else {
                Some(Ordering::Equal)
            }
        },
        (V::S(x), V::S(y)) => Some(x.as_bytes().cmp(y.as_bytes())),
        (V::Y(x), V::Y(y)) => Some(x.as_slice().cmp(y.as_slice())),
        (V::J(x), V::J(y)) => Some(x.as_bytes().cmp(y.as_bytes())),
        _ => None,
    }
}

pub fn cell_of(id: u64, row: &[V], col: Col) -> V {
    match col {
        Col::Id => V::I(id as i64),
        Col::C(i) => row.get(i as usize).cloned().unwrap_or(V::Null),
    }
}

/// Does row (id, row) satisfy `c`?  The harness's own definition.
pub fn holds(c: &Cond, id: u64, row: &[V]) -> bool {
    match c {
        Cond::True => true,
        Cond::And(a, b) => holds(a, id, row) && holds(b, id, row),
        Cond::Or(a, b) => holds(a, id, row) || holds(b, id, row),
        Cond::Leaf(col, op, lit) => {
            let v = cell_of(id, row, *col);
            match op {
                Cmp::Eq => v_eq(&v, lit),
                Cmp::Ne => !v_eq(&v, lit),
                Cmp::Lt => v_ord(&v, lit) == Some(Ordering::Less),
                Cmp::Gt => v_ord(&v, lit) == Some(Ordering::Greater),
                Cmp::Le => matches!(v_ord(&v, lit), Some(Ordering::Less | Ordering::Equal)),
                Cmp::Ge => matches!(v_ord(&v, lit), Some(Ordering::Greater | Ordering::Equal)),
            }
        },
    }
}

// ------------------------------------------------------------------ conversions to product types

pub fn to_value(v: &V) -> Value {
    match v {
        V::Null => Value::Null,
        V::I(i) => Value::Int(*i),
        V::F(f) => Value::Float(f.0),
        V::S(s) => Value::String(s.clone()),
        V::B(b) => Value::Bool(*b),
        V::Y(y) => Value::Bytes(y.clone()),
        V::J(j) => Value::Json(serde_json::from_str(j).expect("pool JSON is valid")),
    }
}

/// Product value -> model cell (the `budget` part re-reads the table after a refused statement).
pub fn from_value(v: &Value) -> Option<V> {
    Some(match v {
        Value::Null => V::Null,
        Value::Int(i) => V::I(*i),
        Value::Float(f) => V::F(Fl(*f)),
        Value::String(s) => V::S(s.clone()),
        Value::Bool(b) => V::B(*b),
        Value::Bytes(y) => V::Y(y.clone()),
        Value::Json(j) => V::J(j.to_string()),
        #[allow(unreachable_patterns)]
        _ => return None,
    })
}

/// Bit-exact comparison of a model cell with a product value.
pub fn same_cell(m: &V, got: &Value) -> bool {
    match (m, got) {
        (V::Null, Value::Null) => true,
        (V::I(a), Value::Int(b)) => a == b,
        (V::F(a), Value::Float(b)) => a.0.to_bits() == b.to_bits() || (a.0.is_nan() && b.is_nan()),
        (V::S(a), Value::String(b)) => a == b,
        (V::B(a), Value::Bool(b)) => a == b,
        (V::Y(a), Value::Bytes(b)) => a == b,
        (V::J(a), Value::Json(b)) => *a == b.to_string(),
        _ => false,
    }
}

pub fn to_condition(c: &Cond) -> Condition {
    match c {
        Cond::True => Condition::True,
        Cond::And(a, b) => Condition::And(Box::new(to_condition(a)), Box::new(to_condition(b))),
        Cond::Or(a, b) => Condition::Or(Box::new(to_condition(a)), Box::new(to_condition(b))),
        Cond::Leaf(col, op, lit) => {
            let (n, v) = (col.name(), to_value(lit));
            match op {
                Cmp::Eq => Condition::Eq(n, v),
                Cmp::Ne => Condition::Ne(n, v),
                Cmp::Lt => Condition::Lt(n, v),
                Cmp::Le => Condition::Le(n, v),
                Cmp::Gt => Condition::Gt(n, v),
                Cmp::Ge => Condition::Ge(n, v),
            }
        },
    }
}

pub fn to_schema(cols: &[ColDef]) -> Schema {
    Schema::new(
        cols.iter()
            .enumerate()
            .map(|(i, c)| {
                let ty = match c.ty {
                    T::Int => ColumnType::Int,
                    T::Float => ColumnType::Float,
                    T::Str => ColumnType::String,
                    T::Bool => ColumnType::Bool,
                    T::Bytes => ColumnType::Bytes,
                    T::Json => ColumnType::Json,
                };
                let col = Column::new(col_name(i), ty);
                if c.nullable {
                    col.nullable()
                } else {
                    col
                }
            })
            .collect(),
    )
}

// ------------------------------------------------------------------ text rendering

/// `SELECT … WHERE` text for the AST parser (`QueryRouter::execute_parsed`): fully parenthesised,
/// literals limited to what the lexer can produce (no sign, no NaN/inf, no bytes/json).
pub fn render_ast(c: &Cond) -> Option<String> {
    match c {
        Cond::True => None,
        Cond::And(a, b) => Some(format!("({} AND {})", render_ast(a)?, render_ast(b)?)),
        Cond::Or(a, b) => Some(format!("({} OR {})", render_ast(a)?, render_ast(b)?)),
        Cond::Leaf(col, op, lit) => {
            let l = match lit {
                V::Null => "NULL".to_string(),
                V::B(b) => if *b { "TRUE" } else { "FALSE" }.to_string(),
                V::I(i) if *i >= 0 => i.to_string(),
                V::F(f) if f.0.is_finite() && f.0.is_sign_positive() => format!("{:?}", f.0),
                V::S(s) if !s.contains('\n') && !s.contains('\r') => {
                    let mut o = String::from("'");
                    for ch in s.chars() {
                        match ch {
                            '\'' => o.push_str("''"),
                            '\\' => o.push_str("\\\\"),
                            c => o.push(c),
                        }
                    }
                    o.push('\'');
                    o
                },
                _ => return None,
            };
            Some(format!("{} {} {}", col.name(), op.sym(), l))
        },
    }
}

/// A literal as the AST grammar writes it (None when the lexer cannot produce it).
pub fn ast_literal(lit: &V) -> Option<String> {
    match render_ast(&Cond::Leaf(Col::Id, Cmp::Eq, lit.clone())) {
        Some(s) => s.strip_prefix("_id = ").map(str::to_string),
        None => None,
    }
}

fn legacy_lit(lit: &V) -> Option<String> {
    Some(match lit {
        V::Null => "NULL".to_string(),
        V::B(b) => b.to_string(),
        V::I(i) => i.to_string(),
        V::F(f) => format!("{:?}", f.0),
        // the legacy splitter works on raw text: only strings that cannot be mistaken for
        // keywords, operators or quotes, and whose upper-casing keeps byte offsets
        V::S(s)
            if s.chars().all(|c| c.is_alphanumeric())
                && s.to_uppercase().len() == s.len()
                && !matches!(s.to_uppercase().as_str(), "AND" | "OR" | "WHERE" | "LIMIT" | "FROM") =>
        {
            format!("'{s}'")
        },
        _ => return None,
    })
}

/// Text for the legacy splitter (`QueryRouter::execute`): it has no parentheses and splits on the
/// first " AND " before " OR ", so only a single leaf, a pure AND-chain or a pure OR-chain of leaves
/// means the same thing there and in SQL.
pub fn render_legacy(c: &Cond) -> Option<String> {
    fn chain(c: &Cond, and: bool, out: &mut Vec<String>) -> Option<()> {
        match c {
            Cond::True => None,
            Cond::Leaf(col, op, lit) => {
                out.push(format!("{} {} {}", col.name(), op.sym(), legacy_lit(lit)?));
                Some(())
            },
            Cond::And(a, b) if and => {
                chain(a, and, out)?;
                chain(b, and, out)
            },
            Cond::Or(a, b) if !and => {
                chain(a, and, out)?;
                chain(b, and, out)
            },
            _ => None,
        }
    }
    let and = matches!(c, Cond::And(..));
    let mut parts = Vec::new();
    chain(c, and, &mut parts)?;
    Some(parts.join(if and { " AND " } else { " OR " }))
}
