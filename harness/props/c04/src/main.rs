//! C04 — Relational queries return exactly the rows that satisfy the condition.
//!
//! Parts:
//!  * `paths`  schema (1–4 columns over Int/Float/String/Bool/Bytes/Json, nullable drawn) + up to 40
//!             operations (insert / batch insert / update / delete / explicit transactions with
//!             commit or rollback / create+drop hash index / create+drop btree index (incl. `_id`) /
//!             materialise) + 3–8 probe conditions. After every index / materialise / transaction op,
//!             at `Check` ops and at the end every probe is evaluated through every execution
//!             strategy (select, select_with_limit, select_iter, select_streaming, select_columnar
//!             both preferences, count, count_column, sum/avg/min/max, legacy text, AST text) and
//!             compared with the reference model; after every write the whole table is compared.
//!  * `big`    the same interpreter on tables of 64–260 or 1000–1300 rows (multi-word bitmaps and SIMD
//!             body/tail split in the vectorised filter, parallel aggregate paths, several batches of
//!             the default streaming cursor), bulk-loaded by cycling through a few base rows.
//!
//! Oracle: `BTreeMap<row id, Vec<V>>` mirrored through every op + the harness's own evaluator
//! (`types::holds`), cross-checked against `Condition::evaluate` (signature `oracle-drift`).

mod gen;
mod types;

use gen::*;
use nv_engine::{main_for, CaseCtx, Fail, PropDef, PropPart, Tier};
use proptest::prelude::*;
use query_router::{QueryResult, QueryRouter};
use relational_engine::{ColumnarScanOptions, Condition, CursorOptions, RelationalEngine, RelationalError, Row, Value};
use std::collections::{BTreeMap, BTreeSet, HashMap};
use types::*;

// ------------------------------------------------------------------ model

#[derive(Clone)]
struct Model {
    cols: Vec<ColDef>,
    rows: BTreeMap<u64, Vec<V>>,
    next_id: u64,
    hash: BTreeSet<Col>,
    btree: BTreeSet<Col>,
    /// earlier in this case a transaction whose update/delete steps had matched rows was rolled back
    /// while some index existed (the undo log then carries index entries to restore)
    rolled_back: bool,
    /// number of update/delete statements so far that matched rows
    touched: u64,
    /// `budget` part: statements may be refused with ResultTooLarge
    budget: bool,
}

#[derive(Clone, Copy, PartialEq, Eq, Debug)]
enum Idx {
    Scan,
    Hash,
    Btree,
}

impl Idx {
    fn tag(self) -> &'static str {
        match self {
            Idx::Scan => "scan",
            Idx::Hash => "hash",
            Idx::Btree => "btree",
        }
    }
}

impl Model {
    fn matching(&self, c: &Cond) -> Vec<u64> {
        self.rows.iter().filter(|(id, r)| holds(c, **id, r)).map(|(id, _)| *id).collect()
    }

    /// Which index the engine is documented to consult for this condition shape (hash index for
    /// `Eq`, btree for ranges, left conjunct first). Used for labels / non-triviality only.
    fn idx_path(&self, c: &Cond) -> Idx {
        match c {
            Cond::Leaf(col, Cmp::Eq, _) if self.hash.contains(col) => Idx::Hash,
            Cond::Leaf(col, op, _) if op.is_range() && self.btree.contains(col) => Idx::Btree,
            Cond::And(a, b) => match self.idx_path(a) {
                Idx::Scan => self.idx_path(b),
                p => p,
            },
            _ => Idx::Scan,
        }
    }

    /// Is the whole tree in the subset the vectorised filter handles (typed Int comparisons on Int
    /// columns, `<`,`>`,`=` with a Float literal on Float columns, True, AND/OR of those)?
    fn vectorisable(&self, c: &Cond) -> bool {
        fn ok(m: &Model, c: &Cond) -> bool {
            match c {
                Cond::True => true,
                Cond::And(a, b) | Cond::Or(a, b) => ok(m, a) && ok(m, b),
                Cond::Leaf(Col::C(i), op, lit) => match (m.cols[*i as usize].ty, lit) {
                    (T::Int, V::I(_)) => true,
                    (T::Float, V::F(_)) => matches!(op, Cmp::Lt | Cmp::Gt | Cmp::Eq),
                    _ => false,
                },
                Cond::Leaf(Col::Id, ..) => false,
            }
        }
        let mut l = Vec::new();
        c.leaves(&mut l);
        !l.is_empty() && ok(self, c)
    }

    fn row_valid(&self, vals: &[V]) -> bool {
        vals.len() == self.cols.len()
            && vals.iter().zip(&self.cols).all(|(v, c)| if v.is_null() { c.nullable } else { v.has_type(c.ty) })
    }

    fn sets_valid(&self, sets: &[(u8, V)]) -> bool {
        sets.iter().all(|(i, v)| {
            let c = &self.cols[*i as usize];
            if v.is_null() {
                c.nullable
            } else {
                v.has_type(c.ty)
            }
        })
    }
}

// ------------------------------------------------------------------ SUT helpers

fn err_name(e: &RelationalError) -> String {
    let d = format!("{e:?}");
    d.split(|c: char| !c.is_ascii_alphanumeric()).next().unwrap_or("Err").to_string()
}

fn is_timeout(e: &RelationalError) -> bool {
    matches!(e, RelationalError::QueryTimeout { .. })
}

fn to_map(vals: &[V], omit_nulls: bool) -> HashMap<String, Value> {
    let mut m = HashMap::new();
    for (i, v) in vals.iter().enumerate() {
        if v.is_null() && omit_nulls {
            continue;
        }
        m.insert(col_name(i), to_value(v));
    }
    m
}

fn sets_map(sets: &[(u8, V)]) -> HashMap<String, Value> {
    let mut m = HashMap::new();
    for (i, v) in sets {
        m.insert(col_name(*i as usize), to_value(v));
    }
    m
}

// ------------------------------------------------------------------ diagnosis (categorical cause)

/// Categorical features of a discrepancy between the model's answer and the engine's answer.
/// `missing`: ids the model expects and the engine did not return; `extra`: returned, not expected.
/// Only features that can matter on the strategy named by `family` (`…/vec`, `…/hash`, …) count.
fn cause(family: &str, m: &Model, c: &Cond, missing: &[u64], extra: &[u64]) -> &'static str {
    if extra.iter().any(|id| !m.rows.contains_key(id)) {
        return "dead-row";
    }
    let vec = family.ends_with("/vec");
    let hash = family.ends_with("/hash");
    let mut leaves = Vec::new();
    c.leaves(&mut leaves);
    let (mut negzero, mut near, mut null) = (false, false, false);
    for (is_missing, id) in missing.iter().map(|i| (true, i)).chain(extra.iter().map(|i| (false, i))) {
        let Some(row) = m.rows.get(id) else { continue };
        for (col, op, lit) in &leaves {
            let v = cell_of(*id, row, **col);
            // vectorised filter: a NULL cell in any referenced column; hash index: a NULL cell looked
            // up by `= NULL` through the index on that column
            if v.is_null() && (vec || (hash && is_missing && lit.is_null() && **op == Cmp::Eq && m.hash.contains(*col))) {
                null = true;
            }
            if let (V::F(a), V::F(b), Cmp::Eq) = (&v, lit, op) {
                let (a, b) = (a.0, b.0);
                // hash index keys floats by bit pattern: an equal value with another pattern is missed
                if hash && is_missing && a == b && a.to_bits() != b.to_bits() {
                    negzero = true;
                }
                // vectorised float equality: "near" values taken as equal, equal infinities not
                if vec && !is_missing && a != b && (a - b).abs() < f64::EPSILON {
                    near = true;
                }
                if vec && is_missing && a.is_infinite() && a == b {
                    near = true;
                }
            }
        }
    }
    if negzero {
        "negzero"
    } else if null {
        "null"
    } else if near {
        "float-near-eq"
    } else if vec && c.has_true() {
        "true-leaf"
    } else {
        "other"
    }
}

fn kind(missing: &[u64], extra: &[u64]) -> &'static str {
    match (missing.is_empty(), extra.is_empty()) {
        (false, true) => "missing",
        (true, false) => "extra",
        _ => "both",
    }
}

/// Signature of a set discrepancy: the diagnosed cause when there is one, else only the direction.
fn sig_of(family: &str, missing: &[u64], extra: &[u64], cause: &str) -> String {
    if cause == "other" {
        format!("{family}:{}", kind(missing, extra))
    } else {
        format!("{family}:{cause}")
    }
}

fn diff(expected: &[u64], got: &[u64]) -> (Vec<u64>, Vec<u64>) {
    let e: BTreeSet<u64> = expected.iter().copied().collect();
    let g: BTreeSet<u64> = got.iter().copied().collect();
    (e.difference(&g).copied().collect(), g.difference(&e).copied().collect())
}

fn ids_text(ids: &[u64]) -> String {
    if ids.len() <= 40 {
        format!("{ids:?}")
    } else {
        format!("[{} ids: {:?} … {:?}]", ids.len(), &ids[..8], &ids[ids.len() - 4..])
    }
}

fn table_text(m: &Model) -> String {
    if m.rows.len() <= 48 {
        format!("{:?}", m.rows)
    } else {
        let head: Vec<_> = m.rows.iter().take(12).collect();
        format!("{} rows, first {:?} …", m.rows.len(), head)
    }
}

struct Env<'a, 'b, 'c> {
    ctx: &'a mut CaseCtx<'b>,
    m: &'c Model,
    eng: &'c RelationalEngine,
    router: &'c QueryRouter,
    step: usize,
}

impl Env<'_, '_, '_> {
    fn describe(&self, c: &Cond) -> String {
        format!(
            "step {} cond {:?} | hash idx {:?} btree idx {:?} | table {}",
            self.step,
            c,
            self.m.hash.iter().map(|c| c.name()).collect::<Vec<_>>(),
            self.m.btree.iter().map(|c| c.name()).collect::<Vec<_>>(),
            table_text(self.m)
        )
    }

    /// Engine error on a read of a well-typed statement.
    fn read_err(&mut self, family: &str, api: &str, c: &Cond, e: &RelationalError) -> Result<(), Fail> {
        if is_timeout(e) {
            self.ctx.label("skipped:query-timeout");
            return Ok(());
        }
        let d = self.describe(c);
        self.ctx.fail(format!("{family}:err:{}", err_name(e)), format!("{api} returned {e:?}; {d}"))
    }

    /// Compare a returned row set with the expected id set (as sets, duplicates reported) and the
    /// returned values with the model. Returns true when everything matched.
    fn check_set(&mut self, family: &str, api: &str, c: &Cond, expected: &[u64], rows: &[Row], full_rows: bool) -> Result<bool, Fail> {
        let got: Vec<u64> = rows.iter().map(|r| r.id).collect();
        let mut sorted = got.clone();
        sorted.sort_unstable();
        sorted.dedup();
        if sorted.len() != got.len() {
            let d = self.describe(c);
            let sig = if self.m.rolled_back { format!("{family}:dup-after-rollback") } else { format!("{family}:dup") };
            self.ctx.fail(sig, format!("{api} returned a row twice: {got:?}; {d}"))?;
            return Ok(false);
        }
        let (missing, extra) = diff(expected, &got);
        if !missing.is_empty() || !extra.is_empty() {
            let mut sig = sig_of(family, &missing, &extra, cause(family, self.m, c, &missing, &extra));
            if family.starts_with("limit/") && !family.ends_with("/scan") && self.m.rolled_back && extra.is_empty() && sig.ends_with(":missing") {
                // stale index entries left by a rollback make the candidate list longer than the
                // table, so even "limit > table" is a truncation
                sig = format!("{family}:missing-after-rollback");
            }
            let d = self.describe(c);
            self.ctx.fail(sig, format!("{api}: expected ids {}, got {} (missing {}, extra {}); {d}", ids_text(expected), ids_text(&got), ids_text(&missing), ids_text(&extra)))?;
            return Ok(false);
        }
        if full_rows {
            for r in rows {
                let mrow = &self.m.rows[&r.id];
                let same = r.values.len() == mrow.len()
                    && r.values.iter().enumerate().all(|(i, (n, v))| *n == col_name(i) && same_cell(&mrow[i], v));
                if !same {
                    let d = self.describe(c);
                    self.ctx.fail(format!("{family}:row-values"), format!("{api}: row {} is {:?}, model {:?}; {d}", r.id, r.values, mrow))?;
                    return Ok(false);
                }
            }
        }
        Ok(true)
    }

    /// Compare an ordered window (limit/offset) with the id-ordered window of the model.
    #[allow(clippy::too_many_arguments)]
    fn check_window(&mut self, family: &str, api: &str, c: &Cond, all: &[u64], limit: usize, offset: usize, rows: &[Row]) -> Result<bool, Fail> {
        self.check_window_t(family, api, c, all, limit, offset, offset.saturating_add(limit), rows)
    }

    /// `looked_at`: the smallest number of index candidates the engine is asked to look at in any
    /// single fetch of this call (offset+limit; the batch size for a streaming cursor).
    #[allow(clippy::too_many_arguments)]
    fn check_window_t(&mut self, family: &str, api: &str, c: &Cond, all: &[u64], limit: usize, offset: usize, looked_at: usize, rows: &[Row]) -> Result<bool, Fail> {
        let want: Vec<u64> = all.iter().copied().skip(offset).take(limit).collect();
        let got: Vec<u64> = rows.iter().map(|r| r.id).collect();
        if got == want {
            return Ok(true);
        }
        // rows that do not satisfy the condition at all / are dead / duplicated
        let (_, not_matching) = diff(all, &got);
        let mut dedup = got.clone();
        dedup.sort_unstable();
        dedup.dedup();
        let d = self.describe(c);
        if dedup.len() != got.len() {
            self.ctx.fail(format!("{family}:dup"), format!("{api}(limit {limit}, offset {offset}) returned a row twice: {got:?}; {d}"))?;
            return Ok(false);
        }
        if !not_matching.is_empty() {
            let sig = sig_of(family, &[], &not_matching, cause(family, self.m, c, &[], &not_matching));
            self.ctx.fail(sig, format!("{api}(limit {limit}, offset {offset}) returned non-matching rows {}: got {}, all matches {}; {d}", ids_text(&not_matching), ids_text(&got), ids_text(all)))?;
            return Ok(false);
        }
        let sig = if looked_at < self.m.rows.len() {
            // fewer candidates were looked at than the table holds: a truncation before the
            // re-check / before the id sort can explain it
            format!("{family}:window")
        } else if self.m.rolled_back && family.starts_with("limit/") && !family.ends_with("/scan") {
            // stale index entries left by a rollback make the candidate list longer than the table
            format!("{family}:window-after-rollback")
        } else {
            format!("{family}:window-untruncated")
        };
        self.ctx.fail(sig, format!("{api}(limit {limit}, offset {offset}): expected id-ordered window {} of {}, got {}; {d}", ids_text(&want), ids_text(all), ids_text(&got)))?;
        Ok(false)
    }
}

// ------------------------------------------------------------------ probes

fn engine_row(id: u64, row: &[V]) -> Row {
    Row { id, values: row.iter().enumerate().map(|(i, v)| (col_name(i), to_value(v))).collect() }
}

fn sum_of(vals: &[&V]) -> (f64, f64, bool) {
    // (sum in id order, sum of magnitudes, all finite)
    let (mut s, mut a, mut fin) = (0.0f64, 0.0f64, true);
    for v in vals {
        let x = match v {
            V::I(i) => *i as f64,
            V::F(f) => f.0,
            _ => continue,
        };
        if !x.is_finite() {
            fin = false;
        }
        s += x;
        a += x.abs();
    }
    (s, a, fin && a.is_finite())
}

fn totally_ordered(vals: &[&V]) -> bool {
    vals.iter().all(|v| match v {
        V::F(f) => !f.0.is_nan(),
        V::B(_) | V::Null => false,
        _ => true,
    })
}

#[allow(clippy::too_many_lines)]
fn run_probe(env: &mut Env, p: &Probe, light: bool) -> Result<(), Fail> {
    let m = env.m;
    let c = &p.cond;
    let cond = to_condition(c);
    let all = m.matching(c);

    // the harness evaluator against the product's row-level definition
    for (id, row) in &m.rows {
        let mine = holds(c, *id, row);
        let theirs = cond.evaluate(&engine_row(*id, row));
        if mine != theirs {
            return Err(Fail::new(
                "oracle-drift",
                format!("harness evaluator says {mine}, Condition::evaluate says {theirs} for row {id} {row:?} under {c:?}"),
            ));
        }
    }

    let idx = m.idx_path(c);
    let vec = m.vectorisable(c);
    let sel_family = format!("select/{}", idx.tag());
    let col_family = if vec { "columnar/vec".to_string() } else { sel_family.clone() };
    let proper = !all.is_empty() && all.len() < m.rows.len();
    env.ctx.label(format!("path:{}", idx.tag()));
    if vec {
        env.ctx.label("path:vec");
    }
    if proper {
        env.ctx.label(format!("proper-subset:{}", idx.tag()));
        if vec {
            env.ctx.label("proper-subset:vec");
        }
        if idx != Idx::Scan || vec {
            env.ctx.set_nontrivial();
        }
    }
    if c.depth() >= 3 {
        env.ctx.label("cond:depth>=3");
    }
    {
        let mut l = Vec::new();
        c.leaves(&mut l);
        for (col, _, lit) in l {
            let cl = lit.class();
            if !matches!(cl, "int" | "int-neg" | "float" | "str" | "bool" | "zero") {
                env.ctx.label(format!("lit:{cl}"));
            }
            if *col == Col::Id {
                env.ctx.label("cond:_id");
            } else if let Col::C(i) = col {
                if !lit.is_null() && !lit.has_type(m.cols[*i as usize].ty) {
                    env.ctx.label("cond:cross-type");
                }
            }
        }
    }

    // --- select
    let mut select_ok = false;
    match env.eng.select(&tn(), cond.clone()) {
        Ok(rows) => {
            select_ok = env.check_set(&sel_family, "select", c, &all, &rows, true)?;
            if select_ok && rows.windows(2).any(|w| w[0].id >= w[1].id) {
                let d = env.describe(c);
                env.ctx.fail(format!("{sel_family}:order"), format!("select did not return rows in id order; {d}"))?;
            }
        },
        Err(e) => env.read_err(&sel_family, "select", c, &e)?,
    }

    // --- count
    let cnt_family = format!("count/{}", idx.tag());
    match env.eng.count(&tn(), cond.clone()) {
        Ok(n) => {
            if n != all.len() as u64 {
                // count returns no rows to diagnose: attribute by the features of the rows the
                // select family would mishandle for the same index path
                let why = if n < all.len() as u64 { "less" } else { "more" };
                let cz = if n > all.len() as u64 && m.rolled_back && idx != Idx::Scan { "dup-after-rollback" } else { count_cause(m, c, idx) };
                let sig = if cz == "other" { format!("{cnt_family}:{why}") } else { format!("{cnt_family}:{cz}") };
                let d = env.describe(c);
                env.ctx.fail(sig, format!("count = {n}, expected {}; {d}", all.len()))?;
            }
        },
        Err(e) => env.read_err(&cnt_family, "count", c, &e)?,
    }

    // --- select_with_limit windows
    let lim_family = format!("limit/{}", idx.tag());
    // the family's un-windowed answer first (a limit no smaller than the table): windows are only
    // compared when that one is right, so a wrong row set is not reported again as a wrong window
    let mut limit_full_ok = false;
    match env.eng.select_with_limit(&tn(), cond.clone(), m.rows.len() + 1, 0) {
        Ok(rows) => {
            limit_full_ok = env.check_set(&lim_family, "select_with_limit(limit > table)", c, &all, &rows, true)?;
            if limit_full_ok && rows.windows(2).any(|w| w[0].id >= w[1].id) {
                let d = env.describe(c);
                env.ctx.fail(format!("{lim_family}:order"), format!("select_with_limit did not return rows in id order; {d}"))?;
                limit_full_ok = false;
            }
        },
        Err(e) => env.read_err(&lim_family, "select_with_limit", c, &e)?,
    }
    let mut windows: Vec<(usize, usize)> = vec![(p.limit as usize, p.offset as usize), (1, 0)];
    if !light {
        windows.push((all.len().max(1), 0));
        windows.push((2, all.len().saturating_sub(1)));
        windows.push((usize::MAX, 1));
    }
    if !limit_full_ok {
        windows.clear();
        env.ctx.label("windows:skipped(row set already reported)");
    }
    for (limit, offset) in windows {
        match env.eng.select_with_limit(&tn(), cond.clone(), limit, offset) {
            Ok(rows) => {
                env.check_window(&lim_family, "select_with_limit", c, &all, limit, offset, &rows)?;
            },
            Err(e) => env.read_err(&lim_family, "select_with_limit", c, &e)?,
        }
    }

    // --- select_iter
    {
        let (limit, offset) = (p.limit as usize, p.offset as usize);
        let variants: [(Option<usize>, usize); 3] = [(None, 0), (None, offset), (Some(limit), offset)];
        for (lim, off) in variants {
            let mut o = CursorOptions::new().with_offset(off).with_batch_size(p.batch as usize);
            if let Some(l) = lim {
                o = o.with_limit(l);
            }
            let fam = if lim.is_some() { &lim_family } else { &sel_family };
            match env.eng.select_iter(&tn(), cond.clone(), o) {
                Ok(cur) => {
                    let total = cur.total_rows();
                    let mut rows = Vec::new();
                    for r in cur {
                        match r {
                            Ok(r) => rows.push(r),
                            Err(e) => env.read_err(fam, "select_iter.next", c, &e)?,
                        }
                    }
                    if total != rows.len() {
                        let d = env.describe(c);
                        env.ctx.fail("iter:total-rows", format!("cursor announced {total} rows and yielded {}; {d}", rows.len()))?;
                    }
                    if (lim.is_none() && !select_ok) || (lim.is_some() && !limit_full_ok) {
                        continue; // same code as select / select_with_limit, already reported
                    }
                    env.check_window(fam, "select_iter", c, &all, lim.unwrap_or(usize::MAX), off, &rows)?;
                },
                Err(e) => env.read_err(fam, "select_iter", c, &e)?,
            }
        }
    }

    // --- streaming cursor (batches through select_with_limit)
    {
        // the cursor is a batch loop around select_with_limit: same strategy, same family
        let str_family = lim_family.clone();
        let max_rows = if p.limit == 0 { None } else { Some(p.limit as usize + 2) };
        let mut b = env.eng.select_streaming_builder(&tn(), cond.clone()).batch_size(p.batch as usize);
        if let Some(mr) = max_rows {
            b = b.max_rows(mr);
        }
        let mut rows = Vec::new();
        let mut failed = false;
        for r in b.build() {
            match r {
                Ok(r) => rows.push(r),
                Err(e) => {
                    env.read_err(&str_family, "select_streaming", c, &e)?;
                    failed = true;
                    break;
                },
            }
        }
        if !failed && limit_full_ok {
            let looked_at = (p.batch as usize).min(max_rows.unwrap_or(usize::MAX));
            env.check_window_t(&str_family, "select_streaming", c, &all, max_rows.unwrap_or(usize::MAX), 0, looked_at, &rows)?;
        }
        if !light {
            // default cursor (batch 1000)
            let mut rows = Vec::new();
            let mut failed = false;
            for r in env.eng.select_streaming(&tn(), cond.clone()) {
                match r {
                    Ok(r) => rows.push(r),
                    Err(e) => {
                        env.read_err(&str_family, "select_streaming", c, &e)?;
                        failed = true;
                        break;
                    },
                }
            }
            if !failed && limit_full_ok {
                env.check_window_t(&str_family, "select_streaming(default)", c, &all, usize::MAX, 0, 1000, &rows)?;
            }
        }
    }

    // --- columnar, both preferences
    for prefer in [true, false] {
        let fam = if prefer { &col_family } else { &sel_family };
        if !(prefer && vec) && !select_ok {
            continue; // falls back to select: already reported
        }
        let opts = ColumnarScanOptions { projection: None, prefer_columnar: prefer };
        match env.eng.select_columnar(&tn(), cond.clone(), opts) {
            Ok(rows) => {
                env.check_set(fam, if prefer { "select_columnar(prefer)" } else { "select_columnar" }, c, &all, &rows, true)?;
            },
            Err(e) => env.read_err(fam, "select_columnar", c, &e)?,
        }
    }
    if !light && (vec || select_ok) {
        // projection on the aggregate column
        let pc = col_name(p.agg as usize);
        let opts = ColumnarScanOptions { projection: Some(vec![pc.clone()]), prefer_columnar: true };
        match env.eng.select_columnar(&tn(), cond.clone(), opts) {
            Ok(rows) => {
                if env.check_set(&col_family, "select_columnar(projection)", c, &all, &rows, false)? {
                    for r in &rows {
                        let want = &m.rows[&r.id][p.agg as usize];
                        let ok = r.values.len() == 1 && r.values[0].0 == pc && same_cell(want, &r.values[0].1);
                        if !ok {
                            let d = env.describe(c);
                            env.ctx.fail(format!("{col_family}:projection"), format!("projected row {} = {:?}, want {pc}={want:?}; {d}", r.id, r.values))?;
                            break;
                        }
                    }
                }
            },
            Err(e) => env.read_err(&col_family, "select_columnar(projection)", c, &e)?,
        }
    }

    // --- aggregates (built on select: only meaningful when select itself was right)
    if select_ok {
        let ai = p.agg as usize;
        let an = col_name(ai);
        let vals: Vec<&V> = all.iter().map(|id| &m.rows[id][ai]).collect();
        let nonnull: Vec<&V> = vals.iter().copied().filter(|v| !v.is_null()).collect();
        match env.eng.count_column(&tn(), &an, cond.clone()) {
            Ok(n) => {
                if n != nonnull.len() as u64 {
                    let d = env.describe(c);
                    env.ctx.fail(format!("count_column/{}:mismatch", idx.tag()), format!("count_column({an}) = {n}, expected {}; {d}", nonnull.len()))?;
                }
            },
            Err(e) => env.read_err("count_column", "count_column", c, &e)?,
        }
        let (s, mag, finite) = sum_of(&vals);
        let numeric = nonnull.iter().filter(|v| matches!(v, V::I(_) | V::F(_))).count();
        match env.eng.sum(&tn(), &an, cond.clone()) {
            Ok(got) => {
                if finite {
                    let tol = 1e-9 * mag + 1e-300;
                    if (got - s).abs() > tol || got.is_nan() {
                        let d = env.describe(c);
                        env.ctx.fail("agg:sum", format!("sum({an}) = {got:?}, expected {s:?}; {d}"))?;
                    }
                } else {
                    env.ctx.label("agg:sum-nonfinite-unchecked");
                }
            },
            Err(e) => env.read_err("agg", "sum", c, &e)?,
        }
        match env.eng.avg(&tn(), &an, cond.clone()) {
            Ok(got) => {
                let ok = match got {
                    None => numeric == 0,
                    Some(g) => {
                        numeric > 0 && (!finite || {
                            let want = s / numeric as f64;
                            (g - want).abs() <= 1e-9 * (mag / numeric as f64) + 1e-300
                        })
                    },
                };
                if !ok {
                    let d = env.describe(c);
                    env.ctx.fail("agg:avg", format!("avg({an}) = {got:?}, expected sum {s:?} over {numeric} numeric values; {d}"))?;
                }
            },
            Err(e) => env.read_err("agg", "avg", c, &e)?,
        }
        for (name, want_ord) in [("min", std::cmp::Ordering::Less), ("max", std::cmp::Ordering::Greater)] {
            let got = if name == "min" { env.eng.min(&tn(), &an, cond.clone()) } else { env.eng.max(&tn(), &an, cond.clone()) };
            match got {
                Ok(got) => {
                    let ok = match &got {
                        None => nonnull.is_empty(),
                        Some(g) => {
                            // the result must be one of the matching rows' values …
                            let member = nonnull.iter().any(|v| same_cell(v, g) || (matches!((v, g), (V::F(a), Value::Float(b)) if a.0 == *b)));
                            // … and, where the values are totally ordered, the extreme one
                            let extreme = !totally_ordered(&nonnull)
                                || nonnull.iter().all(|v| {
                                    let gv = to_value(v);
                                    let o = cmp_values(g, &gv);
                                    o == Some(want_ord) || o == Some(std::cmp::Ordering::Equal)
                                });
                            member && extreme
                        },
                    };
                    if !ok {
                        let d = env.describe(c);
                        env.ctx.fail(format!("agg:{name}"), format!("{name}({an}) = {got:?} over values {nonnull:?}; {d}"))?;
                    }
                },
                Err(e) => env.read_err("agg", name, c, &e)?,
            }
        }
    } else {
        env.ctx.label("agg:skipped(select already reported)");
    }

    let t = tn();
    // --- text: legacy splitter -> select (+ truncate for LIMIT)
    if let Some(w) = render_legacy(c) {
        env.ctx.label("text:legacy");
        if select_ok {
            let fam = format!("text-legacy/{}", idx.tag());
            let mut queries = vec![(format!("SELECT * FROM {t} WHERE {w}"), None)];
            if p.limit > 0 {
                queries.push((format!("SELECT * FROM {t} WHERE {w} LIMIT {}", p.limit), Some(p.limit as usize)));
            }
            for (q, lim) in queries {
                match env.router.execute(&q) {
                    Ok(QueryResult::Rows(rows)) => {
                        let ok = match lim {
                            None => env.check_set(&fam, &q, c, &all, &rows, true)?,
                            Some(l) => env.check_window_t(&fam, &q, c, &all, l, 0, usize::MAX, &rows)?,
                        };
                        if !ok {
                            break;
                        }
                    },
                    Ok(other) => {
                        env.ctx.fail("text-legacy:result-kind", format!("{q} returned {other:?}"))?;
                    },
                    Err(e) => {
                        let d = env.describe(c);
                        env.ctx.fail("text-legacy:err", format!("{q} failed: {e:?}; {d}"))?;
                    },
                }
            }
        }
    }

    // --- text: AST parser -> select_columnar(prefer_columnar) (+ skip/truncate for OFFSET/LIMIT)
    if let Some(w) = render_ast(c) {
        env.ctx.label("text:ast");
        if vec || select_ok {
            let fam = if vec { "text-ast/vec".to_string() } else { format!("text-ast/{}", idx.tag()) };
            let mut queries = vec![(format!("SELECT * FROM {t} WHERE {w}"), usize::MAX, 0)];
            match p.offset % 3 {
                0 => {},
                1 => queries.push((format!("SELECT * FROM {t} WHERE {w} LIMIT {}", p.limit), p.limit as usize, 0)),
                _ => queries.push((format!("SELECT * FROM {t} WHERE {w} LIMIT {} OFFSET {}", p.limit, p.offset), p.limit as usize, p.offset as usize)),
            }
            for (q, lim, off) in queries {
                match env.router.execute_parsed(&q) {
                    Ok(QueryResult::Rows(rows)) => {
                        let ok = if lim == usize::MAX {
                            env.check_set(&fam, &q, c, &all, &rows, true)?
                        } else {
                            env.check_window_t(&fam, &q, c, &all, lim, off, usize::MAX, &rows)?
                        };
                        if !ok {
                            break;
                        }
                    },
                    Ok(other) => {
                        env.ctx.fail("text-ast:result-kind", format!("{q} returned {other:?}"))?;
                    },
                    Err(e) => {
                        let d = env.describe(c);
                        env.ctx.fail("text-ast:err", format!("{q} failed: {e:?}; {d}"))?;
                    },
                }
            }
        }
    }
    Ok(())
}

/// Ordering of two product values of one type, for the min/max check (None when not ordered).
fn cmp_values(a: &Value, b: &Value) -> Option<std::cmp::Ordering> {
    match (a, b) {
        (Value::Int(x), Value::Int(y)) => Some(x.cmp(y)),
        (Value::Float(x), Value::Float(y)) => x.partial_cmp(y),
        (Value::String(x), Value::String(y)) => Some(x.as_bytes().cmp(y.as_bytes())),
        (Value::Bytes(x), Value::Bytes(y)) => Some(x.cmp(y)),
        (Value::Json(x), Value::Json(y)) => Some(x.to_string().cmp(&y.to_string())),
        _ => None,
    }
}

/// `count` returns a number only; name the feature of the table that the same index path is
/// known to mishandle, so a miscount with none of these features stays an unknown signature.
fn count_cause(m: &Model, c: &Cond, idx: Idx) -> &'static str {
    if idx == Idx::Hash {
        // the Eq leaf that drives the lookup
        fn driver<'a>(m: &Model, c: &'a Cond) -> Option<(&'a Col, &'a V)> {
            match c {
                Cond::Leaf(col, Cmp::Eq, v) if m.hash.contains(col) => Some((col, v)),
                Cond::And(a, b) => driver(m, a).or_else(|| driver(m, b)),
                _ => None,
            }
        }
        if let Some((col, lit)) = driver(m, c) {
            let ids: Vec<u64> = m.matching(c);
            let leaf = Cond::Leaf(*col, Cmp::Eq, lit.clone());
            return cause("count/hash", m, &leaf, &ids, &[]);
        }
    }
    "other"
}

// ------------------------------------------------------------------ interpreter

struct Sut {
    router: QueryRouter,
}

/// Name of the (single) table of a case.
fn tn() -> String {
    "t".to_string()
}

/// Every case gets a fresh router (store + engines): nothing carries over between cases, and a
/// replay runs in exactly the environment of the failing case.
fn with_router(ctx: &mut CaseCtx, budget: Option<u8>, f: &dyn Fn(&mut CaseCtx, &Sut) -> Result<(), Fail>) -> Result<(), Fail> {
    let router = match budget {
        None => QueryRouter::new(),
        Some(b) => {
            let store = tensor_store::TensorStore::new();
            let cfg = relational_engine::RelationalConfig::default().with_max_btree_entries(b as usize);
            QueryRouter::with_engines(
                std::sync::Arc::new(RelationalEngine::with_store_and_config(store.clone(), cfg)),
                std::sync::Arc::new(graph_engine::GraphEngine::with_store(store.clone())),
                std::sync::Arc::new(vector_engine::VectorEngine::with_store(store)),
            )
        },
    };
    let sut = Sut { router };
    f(ctx, &sut)
}

fn verify_table(ctx: &mut CaseCtx, sut: &Sut, m: &Model, after: &str, step: usize) -> Result<bool, Fail> {
    let eng = sut.router.relational();
    let rows = match eng.select(&tn(), Condition::True) {
        Ok(r) => r,
        Err(e) if is_timeout(&e) => return Ok(true),
        Err(e) => {
            ctx.fail(format!("table-scan:err:{}", err_name(&e)), format!("select(True) after {after} failed: {e:?}"))?;
            return Ok(false);
        },
    };
    let env = Env { ctx, m, eng, router: &sut.router, step };
    let all: Vec<u64> = m.rows.keys().copied().collect();
    let got: Vec<u64> = rows.iter().map(|r| r.id).collect();
    let (missing, extra) = diff(&all, &got);
    if !missing.is_empty() || !extra.is_empty() || got.len() != all.len() {
        let d = env.describe(&Cond::True);
        env.ctx.fail(
            format!("{after}:table:{}", kind(&missing, &extra)),
            format!("after {after} the table holds ids {got:?}, model {all:?}; {d}"),
        )?;
        return Ok(false);
    }
    for r in &rows {
        let mrow = &m.rows[&r.id];
        let same = r.values.len() == mrow.len() && r.values.iter().enumerate().all(|(i, (n, v))| *n == col_name(i) && same_cell(&mrow[i], v));
        if !same {
            let d = env.describe(&Cond::True);
            env.ctx.fail(format!("{after}:table:row-values"), format!("after {after} row {} is {:?}, model {mrow:?}; {d}", r.id, r.values))?;
            return Ok(false);
        }
    }
    match eng.row_count(&tn()) {
        Ok(n) if n == all.len() => {},
        other => {
            env.ctx.fail(format!("{after}:row-count"), format!("row_count = {other:?}, model {}", all.len()))?;
            return Ok(false);
        },
    }
    Ok(true)
}

fn run_all_probes(ctx: &mut CaseCtx, sut: &Sut, m: &Model, probes: &[Probe], step: usize, light: bool) -> Result<(), Fail> {
    let mut env = Env { ctx, m, eng: sut.router.relational(), router: &sut.router, step };
    for p in probes {
        run_probe(&mut env, p, light)?;
    }
    Ok(())
}

enum DmlOutcome {
    Applied,
    Rejected,
    /// engine and model disagree and the disagreement is a recorded finding: stop the case
    Diverged,
    /// `budget` part: refused for lack of ordered-index budget; the caller re-reads the table
    Refused,
}

fn is_budget(e: &RelationalError) -> bool {
    matches!(e, RelationalError::ResultTooLarge { .. })
}

/// After a refused statement the model takes the table's content from a full scan (no index is
/// consulted for `Condition::True`) and the set of ordered indexes from the catalogue: what a refused
/// statement may leave behind is not C04's business, that index reads agree with that scan is.
fn resync(ctx: &mut CaseCtx, eng: &RelationalEngine, m: &mut Model, what: &str) -> Result<bool, Fail> {
    let rows = match eng.select(&tn(), Condition::True) {
        Ok(r) => r,
        Err(e) if is_timeout(&e) => return Ok(false),
        Err(e) => return Err(Fail::new("harness", format!("scan after refused {what}: {e:?}"))),
    };
    m.rows.clear();
    for r in &rows {
        let vals: Option<Vec<V>> = r.values.iter().map(|(_, v)| from_value(v)).collect();
        let Some(vals) = vals else { return Ok(false) };
        m.next_id = m.next_id.max(r.id + 1);
        m.rows.insert(r.id, vals);
    }
    let cols: Vec<Col> = std::iter::once(Col::Id).chain((0..m.cols.len()).map(|i| Col::C(i as u8))).collect();
    m.btree = cols.iter().copied().filter(|c| eng.has_btree_index(&tn(), &c.name())).collect();
    ctx.set_nontrivial();
    ctx.label(format!("budget: refused {what}"));
    Ok(true)
}

/// Apply one DML statement to engine and model. `tx`: inside an explicit transaction.
fn apply_dml(ctx: &mut CaseCtx, eng: &RelationalEngine, m: &mut Model, d: &Dml, tx: Option<u64>, step: usize) -> Result<DmlOutcome, Fail> {
    match d {
        Dml::Insert { vals, omit_nulls } => {
            let valid = m.row_valid(vals);
            let r = match tx {
                Some(t) => eng.tx_insert(t, &tn(), to_map(vals, *omit_nulls)),
                None => eng.insert(&tn(), to_map(vals, *omit_nulls)),
            };
            match (r, valid) {
                (Ok(id), true) => {
                    // a refused insert may have used up an id
                    if m.budget && id > m.next_id {
                        m.next_id = id;
                    }
                    if id != m.next_id {
                        ctx.fail("insert:row-id", format!("step {step}: insert returned id {id}, expected next id {}", m.next_id))?;
                        return Ok(DmlOutcome::Diverged);
                    }
                    m.rows.insert(id, vals.clone());
                    m.next_id += 1;
                    ctx.label(if *omit_nulls && vals.iter().any(V::is_null) { "op:insert(null omitted)" } else { "op:insert" });
                    Ok(DmlOutcome::Applied)
                },
                (Err(RelationalError::TypeMismatch { .. } | RelationalError::NullNotAllowed(_)), false) => {
                    ctx.label("op:insert rejected (ill-typed)");
                    Ok(DmlOutcome::Rejected)
                },
                (Ok(id), false) => {
                    ctx.fail("insert:accepted-ill-typed", format!("step {step}: insert of {vals:?} into {:?} accepted as id {id}", m.cols))?;
                    Ok(DmlOutcome::Diverged)
                },
                (Err(e), _) if is_timeout(&e) => Ok(DmlOutcome::Diverged),
                (Err(e), _) if m.budget && is_budget(&e) => Ok(DmlOutcome::Refused),
                (Err(e), _) => {
                    ctx.fail(format!("insert:err:{}", err_name(&e)), format!("step {step}: insert of {vals:?} (valid={valid}) failed: {e:?}"))?;
                    Ok(DmlOutcome::Diverged)
                },
            }
        },
        Dml::Update { cond, sets } => {
            // the API takes a map: a column named twice keeps its last value
            let eff: BTreeMap<u8, V> = sets.iter().cloned().collect();
            let sets: Vec<(u8, V)> = eff.into_iter().collect();
            let sets = &sets;
            let valid = m.sets_valid(sets);
            let r = match tx {
                Some(t) => eng.tx_update(t, &tn(), to_condition(cond), sets_map(sets)),
                None => eng.update(&tn(), to_condition(cond), sets_map(sets)),
            };
            match (r, valid) {
                (Ok(n), true) => {
                    let ids = m.matching(cond);
                    for id in &ids {
                        let row = m.rows.get_mut(id).unwrap();
                        for (i, v) in sets {
                            row[*i as usize] = v.clone();
                        }
                    }
                    if !ids.is_empty() {
                        m.touched += 1;
                        ctx.label("op:update(hit)");
                        if sets.iter().any(|(i, _)| m.hash.contains(&Col::C(*i)) || m.btree.contains(&Col::C(*i))) {
                            ctx.label("op:update of indexed column");
                        }
                    }
                    if n != ids.len() {
                        ctx.fail("update:count", format!("step {step}: update {cond:?} reported {n} rows, model {}", ids.len()))?;
                        return Ok(DmlOutcome::Diverged);
                    }
                    Ok(DmlOutcome::Applied)
                },
                (Err(RelationalError::TypeMismatch { .. } | RelationalError::NullNotAllowed(_)), false) => {
                    ctx.label("op:update rejected (ill-typed)");
                    Ok(DmlOutcome::Rejected)
                },
                (Ok(n), false) => {
                    ctx.fail("update:accepted-ill-typed", format!("step {step}: update set {sets:?} on {:?} accepted ({n} rows)", m.cols))?;
                    Ok(DmlOutcome::Diverged)
                },
                (Err(e), _) if is_timeout(&e) => Ok(DmlOutcome::Diverged),
                (Err(e), _) if m.budget && is_budget(&e) => Ok(DmlOutcome::Refused),
                (Err(e), _) => {
                    ctx.fail(format!("update:err:{}", err_name(&e)), format!("step {step}: update {cond:?} set {sets:?} (valid={valid}) failed: {e:?}"))?;
                    Ok(DmlOutcome::Diverged)
                },
            }
        },
        Dml::Delete { cond } => {
            let r = match tx {
                Some(t) => eng.tx_delete(t, &tn(), to_condition(cond)),
                None => eng.delete_rows(&tn(), to_condition(cond)),
            };
            match r {
                Ok(n) => {
                    let ids = m.matching(cond);
                    for id in &ids {
                        m.rows.remove(id);
                    }
                    if !ids.is_empty() {
                        m.touched += 1;
                        ctx.label("op:delete(hit)");
                    }
                    if n != ids.len() {
                        ctx.fail("delete:count", format!("step {step}: delete {cond:?} reported {n} rows, model {}", ids.len()))?;
                        return Ok(DmlOutcome::Diverged);
                    }
                    Ok(DmlOutcome::Applied)
                },
                Err(e) if is_timeout(&e) => Ok(DmlOutcome::Diverged),
                Err(e) => {
                    ctx.fail(format!("delete:err:{}", err_name(&e)), format!("step {step}: delete {cond:?} failed: {e:?}"))?;
                    Ok(DmlOutcome::Diverged)
                },
            }
        },
    }
}

/// UPDATE / DELETE as SQL text through the AST path of the router. Returns None when the statement
/// cannot be written in the grammar (the caller then uses the API).
fn apply_text_dml(ctx: &mut CaseCtx, router: &QueryRouter, m: &mut Model, d: &Dml, step: usize) -> Result<Option<DmlOutcome>, Fail> {
    let t = tn();
    let where_of = |c: &Cond| -> Option<String> {
        match c {
            Cond::True => Some(String::new()),
            c => render_ast(c).map(|w| format!(" WHERE {w}")),
        }
    };
    let (q, cond, sets): (String, &Cond, Vec<(u8, V)>) = match d {
        Dml::Insert { .. } => return Ok(None),
        Dml::Delete { cond } => {
            let Some(w) = where_of(cond) else { return Ok(None) };
            (format!("DELETE FROM {t}{w}"), cond, Vec::new())
        },
        Dml::Update { cond, sets } => {
            let Some(w) = where_of(cond) else { return Ok(None) };
            let eff: BTreeMap<u8, V> = sets.iter().cloned().collect();
            let mut parts = Vec::new();
            for (i, v) in &eff {
                let Some(l) = ast_literal(v) else { return Ok(None) };
                parts.push(format!("{} = {l}", col_name(*i as usize)));
            }
            (format!("UPDATE {t} SET {}{w}", parts.join(", ")), cond, eff.into_iter().collect())
        },
    };
    let is_update = matches!(d, Dml::Update { .. });
    let valid = m.sets_valid(&sets);
    let name = if is_update { "text-update" } else { "text-delete" };
    match (router.execute_parsed(&q), valid) {
        (Ok(QueryResult::Count(n)), true) => {
            let ids = m.matching(cond);
            for id in &ids {
                if is_update {
                    let row = m.rows.get_mut(id).unwrap();
                    for (i, v) in &sets {
                        row[*i as usize] = v.clone();
                    }
                } else {
                    m.rows.remove(id);
                }
            }
            ctx.label(if ids.is_empty() { format!("op:{name}") } else { format!("op:{name}(hit)") });
            if n != ids.len() {
                ctx.fail(format!("{name}:count"), format!("step {step}: {q} reported {n} rows, model {}", ids.len()))?;
                return Ok(Some(DmlOutcome::Diverged));
            }
            Ok(Some(DmlOutcome::Applied))
        },
        (Err(_), false) => {
            ctx.label("op:text-update rejected (ill-typed)");
            Ok(Some(DmlOutcome::Rejected))
        },
        (r, _) => {
            ctx.fail(format!("{name}:err"), format!("step {step}: {q} (valid={valid}) returned {r:?}"))?;
            Ok(Some(DmlOutcome::Diverged))
        },
    }
}

fn dml_name(d: &Dml) -> &'static str {
    match d {
        Dml::Insert { .. } => "insert",
        Dml::Update { .. } => "update",
        Dml::Delete { .. } => "delete",
    }
}

fn run_case(case: &Case, ctx: &mut CaseCtx, probe_every_write: bool) -> Result<(), Fail> {
    with_router(ctx, case.budget, &|ctx, sut| run_case_on(case, ctx, sut, probe_every_write))
}

fn run_case_on(case: &Case, ctx: &mut CaseCtx, sut: &Sut, probe_every_write: bool) -> Result<(), Fail> {
    let eng = sut.router.relational();
    if let Err(e) = eng.create_table(&tn(), to_schema(&case.cols)) {
        return Err(Fail::new("create-table:err", format!("create_table failed: {e:?}")));
    }
    let mut m = Model { cols: case.cols.clone(), rows: BTreeMap::new(), next_id: 1, hash: BTreeSet::new(), btree: BTreeSet::new(), rolled_back: false, touched: 0, budget: case.budget.is_some() };
    for c in &case.cols {
        ctx.label(format!("col:{}{}", c.ty.name(), if c.nullable { "?" } else { "" }));
    }

    for (step, op) in case.ops.iter().enumerate() {
        let probe_now;
        match op {
            Op::Dml(d) => {
                let mut refused = false;
                match apply_dml(ctx, eng, &mut m, d, None, step)? {
                    DmlOutcome::Diverged => return Ok(()),
                    DmlOutcome::Applied | DmlOutcome::Rejected => {},
                    DmlOutcome::Refused => {
                        if !resync(ctx, eng, &mut m, dml_name(d))? {
                            return Ok(());
                        }
                        refused = true;
                    },
                }
                if !verify_table(ctx, sut, &m, dml_name(d), step)? {
                    return Ok(());
                }
                probe_now = probe_every_write || refused;
            },
            Op::TextDml(d) => {
                let out = match apply_text_dml(ctx, &sut.router, &mut m, d, step)? {
                    Some(o) => o,
                    None => {
                        ctx.label("op:text-dml not expressible (sent through the API)");
                        apply_dml(ctx, eng, &mut m, d, None, step)?
                    },
                };
                if matches!(out, DmlOutcome::Diverged | DmlOutcome::Refused) {
                    return Ok(());
                }
                if !verify_table(ctx, sut, &m, &format!("text-{}", dml_name(d)), step)? {
                    return Ok(());
                }
                probe_now = probe_every_write;
            },
            Op::BatchInsert { rows, omit_nulls } => {
                let valid = rows.iter().all(|r| m.row_valid(r));
                let maps: Vec<HashMap<String, Value>> = rows.iter().map(|r| to_map(r, *omit_nulls)).collect();
                match (eng.batch_insert(&tn(), maps), valid) {
                    (Ok(ids), true) => {
                        if let (true, Some(first)) = (m.budget, ids.first()) {
                            m.next_id = m.next_id.max(*first);
                        }
                        let want: Vec<u64> = (m.next_id..m.next_id + rows.len() as u64).collect();
                        if ids != want {
                            ctx.fail("insert:row-id", format!("step {step}: batch_insert returned ids {ids:?}, expected {want:?}"))?;
                            return Ok(());
                        }
                        for (id, r) in ids.iter().zip(rows) {
                            m.rows.insert(*id, r.clone());
                        }
                        m.next_id += rows.len() as u64;
                        ctx.label("op:batch_insert");
                    },
                    (Err(RelationalError::TypeMismatch { .. } | RelationalError::NullNotAllowed(_)), false) => {
                        ctx.label("op:batch_insert rejected (ill-typed)");
                    },
                    (Ok(ids), false) => {
                        ctx.fail("insert:accepted-ill-typed", format!("step {step}: batch_insert of {rows:?} accepted as {ids:?}"))?;
                        return Ok(());
                    },
                    (Err(e), _) if is_timeout(&e) => return Ok(()),
                    (Err(e), _) if m.budget && is_budget(&e) => {
                        if !resync(ctx, eng, &mut m, "batch_insert")? {
                            return Ok(());
                        }
                    },
                    (Err(e), _) => {
                        ctx.fail(format!("insert:err:{}", err_name(&e)), format!("step {step}: batch_insert (valid={valid}) failed: {e:?}"))?;
                        return Ok(());
                    },
                }
                if !verify_table(ctx, sut, &m, "batch_insert", step)? {
                    return Ok(());
                }
                probe_now = probe_every_write || m.budget;
            },
            Op::CreateIndex(col) | Op::CreateBtree(col) => {
                let btree = matches!(op, Op::CreateBtree(_));
                let exists = if btree { m.btree.contains(col) } else { m.hash.contains(col) };
                let r = if btree { eng.create_btree_index(&tn(), &col.name()) } else { eng.create_index(&tn(), &col.name()) };
                match (r, exists) {
                    (Ok(()), false) => {
                        if btree {
                            m.btree.insert(*col);
                            ctx.label(if *col == Col::Id { "op:create_btree(_id)" } else { "op:create_btree" });
                        } else {
                            m.hash.insert(*col);
                            ctx.label(if *col == Col::Id { "op:create_index(_id)" } else { "op:create_index" });
                        }
                    },
                    (Err(RelationalError::IndexAlreadyExists { .. }), true) => ctx.label("op:create index twice (rejected)"),
                    (Err(e), false) if m.budget && btree && is_budget(&e) => {
                        if !resync(ctx, eng, &mut m, "create_btree_index")? {
                            return Ok(());
                        }
                    },
                    (r, _) => {
                        ctx.fail("ddl:create-index", format!("step {step}: {op:?} with index present={exists} returned {r:?}"))?;
                        return Ok(());
                    },
                }
                probe_now = true;
            },
            Op::DropIndex(col) | Op::DropBtree(col) => {
                let btree = matches!(op, Op::DropBtree(_));
                let exists = if btree { m.btree.contains(col) } else { m.hash.contains(col) };
                let r = if btree { eng.drop_btree_index(&tn(), &col.name()) } else { eng.drop_index(&tn(), &col.name()) };
                match (r, exists) {
                    (Ok(()), true) => {
                        if btree {
                            m.btree.remove(col);
                            ctx.label("op:drop_btree");
                        } else {
                            m.hash.remove(col);
                            ctx.label("op:drop_index");
                        }
                    },
                    (Err(RelationalError::IndexNotFound { .. }), false) => ctx.label("op:drop missing index (rejected)"),
                    (r, _) => {
                        ctx.fail("ddl:drop-index", format!("step {step}: {op:?} with index present={exists} returned {r:?}"))?;
                        return Ok(());
                    },
                }
                probe_now = true;
            },
            Op::Materialize(cols) => {
                let names: Vec<String> = cols.iter().map(|i| col_name(*i as usize)).collect();
                let refs: Vec<&str> = names.iter().map(String::as_str).collect();
                if let Err(e) = eng.materialize_columns(&tn(), &refs) {
                    ctx.fail("ddl:materialize", format!("step {step}: materialize_columns({names:?}) failed: {e:?}"))?;
                    return Ok(());
                }
                ctx.label("op:materialize");
                probe_now = true;
            },
            Op::Tx { steps, commit } => {
                let t = eng.begin_transaction();
                let mut work = m.clone();
                for d in steps {
                    match apply_dml(ctx, eng, &mut work, d, Some(t), step)? {
                        DmlOutcome::Applied => {},
                        DmlOutcome::Refused => {
                            // the transaction goes on after a refused statement
                            if !resync(ctx, eng, &mut work, &format!("tx-{}", dml_name(d)))? {
                                let _ = eng.rollback(t);
                                return Ok(());
                            }
                        },
                        DmlOutcome::Rejected | DmlOutcome::Diverged => {
                            // steps inside transactions are generated well typed
                            let _ = eng.rollback(t);
                            return Ok(());
                        },
                    }
                }
                if *commit {
                    if let Err(e) = eng.commit(t) {
                        ctx.fail("tx:commit-err", format!("step {step}: commit failed: {e:?}"))?;
                        return Ok(());
                    }
                    m = work;
                    ctx.label("op:tx commit");
                } else {
                    if let Err(e) = eng.rollback(t) {
                        ctx.fail("tx:rollback-err", format!("step {step}: rollback failed: {e:?}"))?;
                        return Ok(());
                    }
                    // ids handed out inside the transaction are not reused
                    m.next_id = work.next_id;
                    m.rolled_back |= work.touched != m.touched && !(m.hash.is_empty() && m.btree.is_empty());
                    ctx.label("op:tx rollback");
                    if !m.hash.is_empty() || !m.btree.is_empty() {
                        ctx.label("op:tx rollback with index present");
                    }
                }
                if !verify_table(ctx, sut, &m, if *commit { "tx-commit" } else { "tx-rollback" }, step)? {
                    return Ok(());
                }
                probe_now = true;
            },
            Op::Check => probe_now = true,
        }
        if probe_now {
            run_all_probes(ctx, sut, &m, &case.probes, step, true)?;
        }
    }
    run_all_probes(ctx, sut, &m, &case.probes, case.ops.len(), false)?;
    ctx.note = Some(serde_json::json!({
        "rows_at_end": m.rows.len(),
        "hash_indexes": m.hash.iter().map(|c| c.name()).collect::<Vec<_>>(),
        "btree_indexes": m.btree.iter().map(|c| c.name()).collect::<Vec<_>>(),
    }));
    Ok(())
}

fn paths_check(case: &Case, ctx: &mut CaseCtx) -> Result<(), Fail> {
    run_case(case, ctx, false)
}

fn paths_strategy(_t: Tier) -> BoxedStrategy<Case> {
    case_strategy(40)
}

fn big_check(case: &BigCase, ctx: &mut CaseCtx) -> Result<(), Fail> {
    ctx.label(if case.n >= 1000 { "rows>=1000" } else { "rows 64..260" });
    run_case(&case.expand(), ctx, false)
}

fn big_part_strategy(_t: Tier) -> BoxedStrategy<BigCase> {
    big_strategy(10)
}

fn main() {
    main_for(PropDef {
        id: "C04",
        level: "exploration",
        rule: "a probe (condition tree evaluated against the current table through every execution strategy) is non-trivial when the reference model says its result is neither empty nor the whole table AND at least one non-scan strategy answers it: a hash index exists on the column of the driving Eq leaf, or a btree index on the column of the driving range leaf (left conjunct first), or the whole tree lies in the vectorised subset so select_columnar(prefer_columnar)/the AST text path filter it on column vectors. A case is non-trivial when it contains such a probe; distinct = distinct generated case (hash of its JSON).",
        assumptions: vec![
            "single thread, RelationalConfig::default(); a QueryTimeout (30 s default) is skipped, never reported",
            "conditions reference existing columns or `_id` only (comparisons with an unknown column are outside the generated domain)",
            "row order is compared only where the API defines a window (limit/offset/streaming): the id-ordered window the scan path returns; otherwise results are compared as sets, duplicates reported",
            "sum/avg compared with tolerance 1e-9 relative to the sum of magnitudes and only when every addend is finite; min/max must be a member of the matching values and the extreme one when the values are totally ordered",
            "legacy text path (QueryRouter::execute): only single leaves, pure AND-chains and pure OR-chains (the legacy splitter has no parentheses and its AND/OR precedence differs from SQL); AST text path (execute_parsed): fully parenthesised, literals restricted to what the lexer produces (no sign, no NaN/inf, no bytes/json)",
        ],
        parts: vec![
            PropPart::new("paths", 12_000, 400_000, paths_strategy, paths_check).shrink_iters(4000).boxed(),
            PropPart::new("big", 600, 10_000, big_part_strategy, big_check).shrink_iters(600).boxed(),
            PropPart::new("budget", 15_000, 300_000, |_| gen::budget_strategy(), paths_check).shrink_iters(4000).boxed(),
        ],
        children: vec![],
    });
}
