//! Reference model of a shard's data: what the committed writes of a transaction mean, written
//! from the documentation of `Transaction` (block.rs) independently of `apply_operations`.

use crate::gen::{bytes, vector, W, EDGE_TYPE, NAMES, TABLE};
use std::collections::BTreeMap;
use tensor_store::{ScalarValue, TensorData, TensorStore, TensorValue};

#[derive(Clone, Debug, PartialEq, Eq, PartialOrd, Ord)]
pub enum MV {
    Bytes(Vec<u8>),
    Str(String),
    Int(i64),
    Vector(Vec<u32>),
    Other(String),
}

pub type Fields = BTreeMap<String, MV>;
pub type Data = BTreeMap<String, Fields>;

#[derive(Clone, Debug, Default)]
pub struct ShardModel {
    pub data: Data,
    /// store key -> (transaction index, lock key under which it was written); seeds are absent
    pub last_writer: BTreeMap<String, (usize, String)>,
}

fn one(field: &str, v: MV) -> Fields {
    let mut f = Fields::new();
    f.insert(field.to_string(), v);
    f
}

impl ShardModel {
    pub fn seed(&mut self, key: &str, data: Vec<u8>) {
        self.data.insert(key.to_string(), one("data", MV::Bytes(data)));
    }

    pub fn apply(&mut self, tx: usize, w: &W) {
        let key = w.write_key();
        let mut wrote = true;
        match w {
            W::Put { v, .. } => {
                self.data.insert(key.clone(), one("data", MV::Bytes(bytes(*v))));
            },
            W::Delete { .. } | W::NodeDelete { .. } | W::TableDelete { .. } => {
                wrote = self.data.remove(&key).is_some();
            },
            W::Cas { exp, new, .. } => {
                // a missing key, or a value that is not plain bytes, reads as empty
                let cur: Vec<u8> = match self.data.get(&key).and_then(|f| f.get("data")) {
                    Some(MV::Bytes(b)) => b.clone(),
                    _ => Vec::new(),
                };
                if cur == bytes(*exp) {
                    self.data.insert(key.clone(), one("data", MV::Bytes(bytes(*new))));
                } else {
                    wrote = false;
                }
            },
            W::Embed { v, .. } => {
                self.data.insert(key.clone(), one("vector", MV::Vector(vector(*v).iter().map(|x| x.to_bits()).collect())));
            },
            W::NodeCreate { n, label } => {
                let mut f = Fields::new();
                f.insert("_id".into(), MV::Str(NAMES[*n as usize % NAMES.len()].to_string()));
                f.insert("_type".into(), MV::Str("node".into()));
                f.insert("_label".into(), MV::Str(format!("L{label}")));
                self.data.insert(key.clone(), f);
            },
            W::EdgeCreate { from, to } => {
                let mut f = Fields::new();
                f.insert("_from".into(), MV::Str(NAMES[*from as usize % NAMES.len()].to_string()));
                f.insert("_to".into(), MV::Str(NAMES[*to as usize % NAMES.len()].to_string()));
                f.insert("_type".into(), MV::Str(EDGE_TYPE.into()));
                self.data.insert(key.clone(), f);
            },
            W::TableInsert { v } => {
                let _ = TABLE;
                self.data.insert(key.clone(), one("values", MV::Bytes(bytes(*v))));
            },
            W::TableUpdate { row, v } => {
                let mut f = Fields::new();
                f.insert("values".into(), MV::Bytes(bytes(*v)));
                f.insert("row_id".into(), MV::Int(1 + i64::from(*row % 2)));
                self.data.insert(key.clone(), f);
            },
        }
        if wrote {
            self.last_writer.insert(key, (tx, w.lock_key()));
        }
    }
}

fn fields_of(d: &TensorData) -> Fields {
    d.iter()
        .map(|(k, v)| {
            let mv = match v {
                TensorValue::Scalar(ScalarValue::Bytes(b)) => MV::Bytes(b.clone()),
                TensorValue::Scalar(ScalarValue::String(s)) => MV::Str(s.clone()),
                TensorValue::Scalar(ScalarValue::Int(i)) => MV::Int(*i),
                TensorValue::Vector(x) => MV::Vector(x.iter().map(|f| f.to_bits()).collect()),
                other => MV::Other(format!("{other:?}")),
            };
            (k.clone(), mv)
        })
        .collect()
}

/// Full content of a store: every key of a full scan with the value `get` returns for it.
/// A scanned key that cannot be read is reported as an entry with the single field "<unreadable>".
pub fn read_store(store: &TensorStore) -> Data {
    let mut keys = store.scan("");
    keys.sort();
    keys.dedup();
    let mut out = Data::new();
    for k in keys {
        match store.get(&k) {
            Ok(d) => {
                out.insert(k, fields_of(&d));
            },
            Err(e) => {
                out.insert(k, one("<unreadable>", MV::Other(e.to_string())));
            },
        }
    }
    out
}

/// First key on which the two contents differ.
pub fn first_diff(actual: &Data, model: &Data) -> Option<(String, Option<Fields>, Option<Fields>)> {
    let mut keys: Vec<&String> = actual.keys().chain(model.keys()).collect();
    keys.sort();
    keys.dedup();
    for k in keys {
        if actual.get(k) != model.get(k) {
            return Some((k.clone(), actual.get(k).cloned(), model.get(k).cloned()));
        }
    }
    None
}
