//! Case types and strategies for C03: transactions over a small key pool with deliberate
//! lock-key / storage-key aliases, and message-level histories.

use nv_engine::Tier;
use proptest::prelude::*;
use serde::{Deserialize, Serialize};
use tensor_chain::Transaction;

/// Keys used by Put / Delete / CompareAndSwap. Besides two plain keys the pool holds, on purpose,
/// the keys under which the *other* operation kinds store their data (Embed x -> "emb:x",
/// TableInsert t -> "table:t", NodeCreate x -> "node:x", TableUpdate t/1 -> "table:t:row:1",
/// EdgeCreate x->y -> "edge:x:y:e").
pub const PUT_KEYS: [&str; 7] = ["x", "y", "emb:x", "table:t", "node:x", "table:t:row:1", "edge:x:y:e"];
pub const NAMES: [&str; 2] = ["x", "y"];
pub const TABLE: &str = "t";
pub const EDGE_TYPE: &str = "e";

/// One write operation of a transaction (indices into the small pools).
#[derive(Clone, Debug, Serialize, Deserialize, PartialEq, Eq)]
pub enum W {
    Put { k: u8, v: u8 },
    Delete { k: u8 },
    Cas { k: u8, exp: u8, new: u8 },
    Embed { n: u8, v: u8 },
    NodeCreate { n: u8, label: u8 },
    NodeDelete { n: u8 },
    EdgeCreate { from: u8, to: u8 },
    TableInsert { v: u8 },
    TableUpdate { row: u8, v: u8 },
    TableDelete { row: u8 },
}

pub fn bytes(v: u8) -> Vec<u8> {
    if v == 0 {
        Vec::new()
    } else {
        vec![v]
    }
}

pub fn vector(v: u8) -> Vec<f32> {
    vec![f32::from(v), 1.0]
}

fn put_key(k: u8) -> String {
    PUT_KEYS[k as usize % PUT_KEYS.len()].to_string()
}

fn name(n: u8) -> String {
    NAMES[n as usize % NAMES.len()].to_string()
}

fn row(r: u8) -> u64 {
    1 + u64::from(r % 2)
}

impl W {
    pub fn to_tx(&self) -> Transaction {
        match self {
            W::Put { k, v } => Transaction::Put { key: put_key(*k), data: bytes(*v) },
            W::Delete { k } => Transaction::Delete { key: put_key(*k) },
            W::Cas { k, exp, new } => {
                Transaction::CompareAndSwap { key: put_key(*k), expected_data: bytes(*exp), new_data: bytes(*new) }
            },
            W::Embed { n, v } => Transaction::Embed { key: name(*n), vector: vector(*v) },
            W::NodeCreate { n, label } => Transaction::NodeCreate { key: name(*n), label: format!("L{label}") },
            W::NodeDelete { n } => Transaction::NodeDelete { key: name(*n) },
            W::EdgeCreate { from, to } => {
                Transaction::EdgeCreate { from: name(*from), to: name(*to), edge_type: EDGE_TYPE.to_string() }
            },
            W::TableInsert { v } => Transaction::TableInsert { table: TABLE.to_string(), values: bytes(*v) },
            W::TableUpdate { row: r, v } => {
                Transaction::TableUpdate { table: TABLE.to_string(), row_id: row(*r), values: bytes(*v) }
            },
            W::TableDelete { row: r } => Transaction::TableDelete { table: TABLE.to_string(), row_id: row(*r) },
        }
    }

    /// The logical key the operation locks (documented: key / from / table).
    pub fn lock_key(&self) -> String {
        match self {
            W::Put { k, .. } | W::Delete { k } | W::Cas { k, .. } => put_key(*k),
            W::Embed { n, .. } | W::NodeCreate { n, .. } | W::NodeDelete { n } => name(*n),
            W::EdgeCreate { from, .. } => name(*from),
            W::TableInsert { .. } | W::TableUpdate { .. } | W::TableDelete { .. } => TABLE.to_string(),
        }
    }

    /// The store key the operation's data lives under once applied.
    pub fn write_key(&self) -> String {
        match self {
            W::Put { k, .. } | W::Delete { k } | W::Cas { k, .. } => put_key(*k),
            W::Embed { n, .. } => format!("emb:{}", name(*n)),
            W::NodeCreate { n, .. } | W::NodeDelete { n } => format!("node:{}", name(*n)),
            W::EdgeCreate { from, to } => format!("edge:{}:{}:{EDGE_TYPE}", name(*from), name(*to)),
            W::TableInsert { .. } => format!("table:{TABLE}"),
            W::TableUpdate { row: r, .. } | W::TableDelete { row: r } => format!("table:{TABLE}:row:{}", row(*r)),
        }
    }
}

#[derive(Clone, Debug, Serialize, Deserialize)]
pub struct Part {
    pub shard: u8,
    pub ws: Vec<W>,
    /// delta embedding code: 0 zero, 1 e0, 2 e1, 3 e0+e1
    pub emb: u8,
}

#[derive(Clone, Debug, Serialize, Deserialize)]
pub struct TxSpec {
    pub parts: Vec<Part>,
}

#[derive(Clone, Debug, Serialize, Deserialize)]
pub enum Op {
    /// client starts a transaction: coordinator.begin + one Prepare message per shard
    Begin(TxSpec),
    Deliver(u16),
    Drop(u16),
    Duplicate(u16),
    /// timeout sweep: (sleep past the deadline in the short-timeout regime,) cleanup_timeouts,
    /// then the queued abort broadcasts go out
    Sweep,
    /// the queued abort broadcasts go out (process_pending_aborts tick without a timeout sweep)
    Flush,
    /// the glue tries to commit: 0..=2 that transaction, >= 3 the first transaction it saw
    /// reach `Prepared` that is still undecided
    TryCommit(u8),
    ClientAbort(u8),
    /// a vote about transaction `sel` that names a shard which is NOT one of its participants
    /// (a misrouted or misconfigured peer; cluster.rs hands `msg.shard_id` to record_vote
    /// unchecked): it must never stand in for a participant's vote
    StrayVote { sel: u8, yes: bool },
}

#[derive(Clone, Debug, Serialize, Deserialize)]
pub struct Case {
    pub shards: u8,
    /// prepare timeout 1 ms (sweeps sleep 3 ms first) instead of one hour
    pub tiny: bool,
    /// (shard, PUT_KEYS index, value) written before the history starts
    pub seeds: Vec<(u8, u8, u8)>,
    pub ops: Vec<Op>,
}

fn put_key_strategy() -> impl Strategy<Value = u8> {
    prop_oneof![5 => Just(0u8), 4 => Just(1u8), 4 => Just(2u8), 2 => Just(3u8), 1 => Just(4u8), 1 => Just(5u8), 1 => Just(6u8)]
}

fn name_strategy() -> impl Strategy<Value = u8> {
    prop_oneof![2 => Just(0u8), 1 => Just(1u8)]
}

fn w_strategy() -> impl Strategy<Value = W> {
    prop_oneof![
        8 => (put_key_strategy(), 0u8..4).prop_map(|(k, v)| W::Put { k, v }),
        3 => put_key_strategy().prop_map(|k| W::Delete { k }),
        3 => (put_key_strategy(), 0u8..4, 0u8..4).prop_map(|(k, exp, new)| W::Cas { k, exp, new }),
        5 => (name_strategy(), 0u8..3).prop_map(|(n, v)| W::Embed { n, v }),
        1 => (name_strategy(), 0u8..2).prop_map(|(n, label)| W::NodeCreate { n, label }),
        1 => name_strategy().prop_map(|n| W::NodeDelete { n }),
        1 => (name_strategy(), name_strategy()).prop_map(|(from, to)| W::EdgeCreate { from, to }),
        1 => (0u8..4).prop_map(|v| W::TableInsert { v }),
        1 => (0u8..2, 0u8..4).prop_map(|(row, v)| W::TableUpdate { row, v }),
        1 => (0u8..2).prop_map(|row| W::TableDelete { row }),
    ]
}

fn tx_strategy() -> impl Strategy<Value = TxSpec> {
    // three part slots; the interpreter maps a slot to a shard by `% shards` and ignores a second
    // part for the same shard, so the strategy does not depend on the shard count (no flat_map)
    prop::collection::vec(
        (prop::bool::weighted(0.8), prop::collection::vec(w_strategy(), 1..=3), prop_oneof![3 => Just(0u8), 2 => 1u8..4]),
        3,
    )
    .prop_map(|v| {
        let mut parts: Vec<Part> = v
            .iter()
            .enumerate()
            .filter(|(_, (inc, _, _))| *inc)
            .map(|(s, (_, ws, emb))| Part { shard: s as u8, ws: ws.clone(), emb: *emb })
            .collect();
        if parts.is_empty() {
            let (_, ws, emb) = &v[0];
            parts.push(Part { shard: 0, ws: ws.clone(), emb: *emb });
        }
        TxSpec { parts }
    })
}

fn index_strategy() -> impl Strategy<Value = u16> {
    // the oldest message first in half of the picks, any message otherwise (reordering)
    prop_oneof![1 => Just(0u16), 1 => any::<u16>()]
}

fn op_strategy() -> impl Strategy<Value = Op> {
    prop_oneof![
        2 => tx_strategy().prop_map(Op::Begin),
        20 => index_strategy().prop_map(Op::Deliver),
        2 => any::<u16>().prop_map(Op::Drop),
        3 => any::<u16>().prop_map(Op::Duplicate),
        2 => Just(Op::Sweep),
        2 => Just(Op::Flush),
        3 => (0u8..3).prop_map(Op::TryCommit),
        5 => Just(Op::TryCommit(3)),
        1 => (0u8..3).prop_map(Op::ClientAbort),
        1 => (0u8..3, prop::bool::weighted(0.85)).prop_map(|(sel, yes)| Op::StrayVote { sel, yes }),
    ]
}

pub fn case_strategy(t: Tier) -> impl Strategy<Value = Case> {
    let max_ops = t.pick(60usize, 90usize);
    (
        prop_oneof![1 => Just(2u8), 1 => Just(3u8)],
        prop::bool::weighted(0.2),
        prop::collection::vec((0u8..3, put_key_strategy(), 1u8..4), 0..6),
        // nearly every history starts with a transaction (an Option so that shrinking can drop it)
        prop::option::weighted(0.97, tx_strategy()),
        prop::collection::vec(op_strategy(), 0..max_ops),
    )
        .prop_map(|(shards, tiny, seeds, first, rest)| {
            let mut ops = Vec::with_capacity(rest.len() + 1);
            if let Some(first) = first {
                ops.push(Op::Begin(first));
            }
            ops.extend(rest);
            Case { shards, tiny, seeds, ops }
        })
}
