//! C03 — Two-phase commit: every participant reaches the coordinator's one decision.
//!
//! The harness is the network and the glue (cluster.rs run loop / network.rs TxHandler): one real
//! `DistributedTxCoordinator`, 2–3 real `TxParticipant`s with their own pre-seeded `TensorStore`,
//! 1–3 transactions over a small key pool. Prepare / vote / commit / abort messages live in a bag
//! owned by the harness; generated histories deliver, drop, duplicate and reorder them, fire timeout
//! sweeps, flush queued abort broadcasts, let the glue try to commit and let the client abort.
//! After every step the history invariants of the property are checked and every shard's store is
//! compared (full scan + get) with a reference model that changes only when a participant reports a
//! successful commit.

mod gen;
mod model;
mod prace;
mod race;

use gen::{Case, Op, TxSpec, W, PUT_KEYS};
use model::{first_diff, read_store, ShardModel};
use nv_engine::{main_for, pick, CaseCtx, Fail, PropDef, PropPart};
use std::collections::{BTreeMap, BTreeSet};
use tensor_chain::consensus::{ConsensusConfig, ConsensusManager};
use tensor_chain::distributed_tx::{
    DistributedTxConfig, DistributedTxCoordinator, PrepareRequest, PrepareVote, TxParticipant, TxPhase, VoteRecordError,
};
use tensor_chain::network::TxVote;
use tensor_chain::Transaction;
use tensor_store::{ScalarValue, SparseVector, TensorData, TensorStore, TensorValue};

const MAX_TXS: usize = 3;
const LONG_TIMEOUT_MS: u64 = 3_600_000;

#[derive(Clone, Debug)]
enum Msg {
    Prepare { tx: usize, shard: usize },
    Vote { tx: usize, shard: usize, vote: PrepareVote },
    Commit { tx: usize, shard: usize },
    Abort { tx: usize, shard: usize },
}

#[derive(Clone, Debug)]
struct InFlight {
    /// shared by all copies of one message
    uid: u32,
    msg: Msg,
}

#[derive(Clone, Copy, PartialEq, Eq, Debug)]
enum Decision {
    Commit,
    Abort,
}

/// What the last step was, for the signature of a store/model difference.
#[derive(Clone, Copy, Debug)]
enum Step {
    Prepare { tx: usize },
    Commit { ok: bool },
    Abort { tx: usize, shard: usize },
    /// a step in which no participant code runs (coordinator calls, drop, duplicate)
    Coordinator,
    Network,
    /// start and end of the history: compare everything
    Full,
}

struct ShardSt {
    ws: Vec<W>,
    ops: Vec<Transaction>,
    emb: SparseVector,
    /// the participant answered Yes at least once
    voted_yes: bool,
    /// the vote record_vote accepted for this shard (is_yes)
    accepted: Option<bool>,
    applied: u32,
    /// an abort was delivered while the participant held the transaction prepared after a yes vote
    discarded: bool,
    commit_dropped: bool,
    abort_dropped: bool,
    last_prepare: Option<usize>,
    last_abort: Option<usize>,
}

struct TxSt {
    id: u64,
    shards: BTreeMap<usize, ShardSt>,
    decision: Option<Decision>,
    seen_prepared: bool,
    commit_ok: u32,
    swept_at: Option<usize>,
    /// an abort broadcast must be in the next take_pending_aborts: why
    abort_expected: Option<&'static str>,
    last_phase: Option<TxPhase>,
}

#[derive(Default)]
struct Flags {
    late_vote: bool,
    dup_twice: bool,
    overlap: bool,
    alias_overlap: bool,
    conflict_vote: bool,
    cross_shard_abort: bool,
    vote_no_abort: bool,
    timeouts: u32,
    client_aborts: u32,
    commits: u32,
    early_commit_attempt: bool,
    commit_refused: bool,
    rejected_votes: BTreeSet<&'static str>,
    double_apply: bool,
    orphan_prepare: bool,
    prepare_after_abort: bool,
    abort_before_prepare: bool,
    drops: u32,
    dups: u32,
    out_of_order: u32,
    skipped: u32,
    commit_lost: bool,
    abort_lost_left_prepared: bool,
}

thread_local! {
    // creating a TensorStore costs about a millisecond; the stores are cleared per case instead
    static STORES: Vec<TensorStore> = (0..3).map(|_| TensorStore::new()).collect();
}

struct Sim {
    tiny: bool,
    timeout_ms: u64,
    coord: DistributedTxCoordinator,
    parts: Vec<TxParticipant>,
    stores: Vec<TensorStore>,
    models: Vec<ShardModel>,
    bag: Vec<InFlight>,
    next_uid: u32,
    delivered: BTreeMap<u32, u32>,
    txs: Vec<TxSt>,
    step: usize,
    /// a recorded data finding was hit: store and model disagree, the case stops
    diverged: bool,
    flags: Flags,
}

fn embedding(code: u8) -> SparseVector {
    match code % 4 {
        0 => SparseVector::new(4),
        1 => SparseVector::from_dense(&[1.0, 0.0, 0.0, 0.0]),
        2 => SparseVector::from_dense(&[0.0, 1.0, 0.0, 0.0]),
        _ => SparseVector::from_dense(&[1.0, 1.0, 0.0, 0.0]),
    }
}

fn is_yes(v: &PrepareVote) -> bool {
    matches!(v, PrepareVote::Yes { .. })
}

impl Sim {
    fn new(case: &Case) -> Self {
        let n = usize::from(case.shards.clamp(2, 3));
        let timeout_ms = if case.tiny { 1 } else { LONG_TIMEOUT_MS };
        let config = DistributedTxConfig { prepare_timeout_ms: timeout_ms, ..DistributedTxConfig::default() };
        let coord = DistributedTxCoordinator::new(ConsensusManager::new(ConsensusConfig::default()), config);
        let stores: Vec<TensorStore> = STORES.with(|s| s.iter().take(n).cloned().collect());
        let mut models: Vec<ShardModel> = (0..n).map(|_| ShardModel::default()).collect();
        for s in &stores {
            s.clear();
        }
        for (shard, k, v) in &case.seeds {
            let shard = *shard as usize % n;
            let key = PUT_KEYS[*k as usize % PUT_KEYS.len()];
            let mut t = TensorData::new();
            t.set("data", TensorValue::Scalar(ScalarValue::Bytes(gen::bytes(*v))));
            stores[shard].put(key, t).expect("seed put");
            models[shard].seed(key, gen::bytes(*v));
        }
        let parts = stores.iter().map(|s| TxParticipant::new(s.clone())).collect();
        Sim {
            tiny: case.tiny,
            timeout_ms,
            coord,
            parts,
            stores,
            models,
            bag: Vec::new(),
            next_uid: 0,
            delivered: BTreeMap::new(),
            txs: Vec::new(),
            step: 0,
            diverged: false,
            flags: Flags::default(),
        }
    }

    fn send(&mut self, msg: Msg) {
        let uid = self.next_uid;
        self.next_uid += 1;
        self.bag.push(InFlight { uid, msg });
    }

    fn tx_index(&self, id: u64) -> Option<usize> {
        self.txs.iter().position(|t| t.id == id)
    }

    fn observe_commit(&mut self, tx: usize, ctx: &mut CaseCtx) -> Result<(), Fail> {
        if self.txs[tx].decision == Some(Decision::Abort) {
            ctx.fail(
                "decision-flip:abort-then-commit",
                format!("tx#{tx}: the coordinator had decided abort (or timed the transaction out) and now commit() returned Ok"),
            )?;
        }
        self.txs[tx].decision = Some(Decision::Commit);
        Ok(())
    }

    fn observe_abort(&mut self, tx: usize, how: &str, ctx: &mut CaseCtx) -> Result<(), Fail> {
        if self.txs[tx].decision == Some(Decision::Commit) {
            ctx.fail(
                "decision-flip:commit-then-abort",
                format!("tx#{tx}: commit() had returned Ok and now the coordinator reports abort ({how})"),
            )?;
        } else {
            self.txs[tx].decision = Some(Decision::Abort);
        }
        Ok(())
    }

    fn begin(&mut self, spec: &TxSpec, ctx: &mut CaseCtx) -> Result<(), Fail> {
        if self.txs.len() >= MAX_TXS {
            self.flags.skipped += 1;
            return Ok(());
        }
        let n = self.parts.len();
        let mut shards: BTreeMap<usize, ShardSt> = BTreeMap::new();
        for p in &spec.parts {
            let s = p.shard as usize % n;
            if shards.contains_key(&s) || p.ws.is_empty() {
                continue;
            }
            shards.insert(
                s,
                ShardSt {
                    ws: p.ws.clone(),
                    ops: p.ws.iter().map(W::to_tx).collect(),
                    emb: embedding(p.emb),
                    voted_yes: false,
                    accepted: None,
                    applied: 0,
                    discarded: false,
                    commit_dropped: false,
                    abort_dropped: false,
                    last_prepare: None,
                    last_abort: None,
                },
            );
        }
        if shards.is_empty() {
            self.flags.skipped += 1;
            return Ok(());
        }
        let list: Vec<usize> = shards.keys().copied().collect();
        let tx = match self.coord.begin(&"coord".to_string(), &list) {
            Ok(t) => t,
            Err(e) => {
                return ctx.fail("begin-refused", format!("begin refused with {} pending transactions: {e}", self.txs.len()));
            },
        };
        let idx = self.txs.len();
        self.txs.push(TxSt {
            id: tx.tx_id,
            shards,
            decision: None,
            seen_prepared: false,
            commit_ok: 0,
            swept_at: None,
            abort_expected: None,
            last_phase: None,
        });
        for s in list {
            self.send(Msg::Prepare { tx: idx, shard: s });
        }
        Ok(())
    }

    fn lock_keys(&self, tx: usize, shard: usize) -> BTreeSet<String> {
        self.txs[tx].shards[&shard].ws.iter().map(W::lock_key).collect()
    }

    fn write_keys(&self, tx: usize, shard: usize) -> BTreeSet<String> {
        self.txs[tx].shards[&shard].ws.iter().map(W::write_key).collect()
    }

    fn deliver(&mut self, k: usize, ctx: &mut CaseCtx) -> Result<Step, Fail> {
        let m = self.bag.remove(k);
        let c = self.delivered.entry(m.uid).or_insert(0);
        *c += 1;
        if *c >= 2 {
            self.flags.dup_twice = true;
        }
        match m.msg {
            Msg::Prepare { tx, shard } => {
                // classification: another transaction was prepared here on an overlapping key
                let (lk, wk) = (self.lock_keys(tx, shard), self.write_keys(tx, shard));
                for other in 0..self.txs.len() {
                    if other != tx && self.txs[other].shards.get(&shard).is_some_and(|s| s.last_prepare.is_some()) {
                        let (olk, owk) = (self.lock_keys(other, shard), self.write_keys(other, shard));
                        let locks_meet = lk.intersection(&olk).next().is_some();
                        let writes_meet = wk.intersection(&owk).next().is_some();
                        if locks_meet || writes_meet {
                            self.flags.overlap = true;
                        }
                        if writes_meet && !locks_meet {
                            self.flags.alias_overlap = true;
                        }
                    }
                }
                let id = self.txs[tx].id;
                let st = &self.txs[tx].shards[&shard];
                let req = PrepareRequest {
                    tx_id: id,
                    coordinator: "coord".to_string(),
                    operations: st.ops.clone(),
                    delta_embedding: st.emb.clone(),
                    timeout_ms: self.timeout_ms,
                };
                let vote = self.parts[shard].prepare(req);
                let yes = is_yes(&vote);
                let step = self.step;
                let decided = self.txs[tx].decision.is_some();
                let st = self.txs[tx].shards.get_mut(&shard).unwrap();
                if st.last_abort.is_some() {
                    self.flags.prepare_after_abort = true;
                }
                st.last_prepare = Some(step);
                if yes {
                    st.voted_yes = true;
                    if decided {
                        self.flags.orphan_prepare = true;
                    }
                } else {
                    self.flags.conflict_vote = true;
                }
                // the vote travels as network::TxVote (TxHandler) and is converted back by the coordinator's glue
                let wire: TxVote = vote.into();
                let vote: PrepareVote = wire.into();
                self.send(Msg::Vote { tx, shard, vote });
                Ok(Step::Prepare { tx })
            },
            Msg::Vote { tx, shard, vote } => {
                let id = self.txs[tx].id;
                if self.txs[tx].swept_at.is_some() {
                    self.flags.late_vote = true;
                }
                let yes = is_yes(&vote);
                match self.coord.record_vote(id, shard, vote) {
                    Ok(phase) => {
                        if let Some(d) = self.txs[tx].decision {
                            ctx.fail(
                                "vote-accepted-after-decision",
                                format!("tx#{tx}: record_vote accepted a vote of shard {shard} although the decision {d:?} had been observed"),
                            )?;
                        }
                        if self.txs[tx].shards[&shard].accepted.is_some() {
                            ctx.fail(
                                "duplicate-vote-accepted",
                                format!("tx#{tx}: record_vote accepted a second vote of shard {shard}"),
                            )?;
                        }
                        self.txs[tx].shards.get_mut(&shard).unwrap().accepted = Some(yes);
                        match phase {
                            Some(TxPhase::Prepared) => {
                                let missing: Vec<usize> = self.txs[tx]
                                    .shards
                                    .iter()
                                    .filter(|(_, s)| s.accepted != Some(true))
                                    .map(|(k, _)| *k)
                                    .collect();
                                if !missing.is_empty() {
                                    ctx.fail(
                                        "prepared-without-all-yes-votes",
                                        format!("tx#{tx}: record_vote reported Prepared but no yes vote was accepted from shards {missing:?}"),
                                    )?;
                                }
                                self.txs[tx].seen_prepared = true;
                            },
                            Some(TxPhase::Aborting) => {
                                self.observe_abort(tx, "record_vote returned Aborting", ctx)?;
                                self.txs[tx].abort_expected = Some("vote");
                            },
                            Some(other) => {
                                ctx.fail("record-vote-unexpected-phase", format!("tx#{tx}: record_vote returned phase {other:?}"))?;
                            },
                            None => {},
                        }
                    },
                    Err(e) => {
                        // cluster.rs ignores the result
                        self.flags.rejected_votes.insert(match e {
                            VoteRecordError::TxNotFound(_) => "vote rejected: transaction gone",
                            VoteRecordError::WrongPhase { .. } => "vote rejected: wrong phase",
                            VoteRecordError::DuplicateVote { .. } => "vote rejected: duplicate",
                        });
                    },
                }
                Ok(Step::Coordinator)
            },
            Msg::Commit { tx, shard } => {
                let id = self.txs[tx].id;
                let awaiting = self.parts[shard].get_awaiting_decision().contains(&id);
                let resp = self.parts[shard].commit(id);
                if resp.success {
                    if self.txs[tx].decision != Some(Decision::Commit) {
                        ctx.fail(
                            "participant-applied-without-commit-decision",
                            format!("tx#{tx}: shard {shard} applied the writes but the coordinator's decision is {:?}", self.txs[tx].decision),
                        )?;
                    }
                    if !awaiting {
                        ctx.fail(
                            "participant-commit-unprepared",
                            format!("tx#{tx}: shard {shard} reported a successful commit of a transaction it did not hold prepared"),
                        )?;
                    }
                    let ws = self.txs[tx].shards[&shard].ws.clone();
                    for w in &ws {
                        self.models[shard].apply(tx, w);
                    }
                    let st = self.txs[tx].shards.get_mut(&shard).unwrap();
                    st.applied += 1;
                    if st.applied >= 2 {
                        self.flags.double_apply = true;
                    }
                } else if awaiting {
                    ctx.fail(
                        "prepared-participant-refused-commit",
                        format!("tx#{tx}: shard {shard} held the transaction prepared but commit failed: {:?}", resp.error),
                    )?;
                }
                Ok(Step::Commit { ok: resp.success })
            },
            Msg::Abort { tx, shard } => {
                let id = self.txs[tx].id;
                let awaiting = self.parts[shard].get_awaiting_decision().contains(&id);
                let _ = self.parts[shard].abort(id);
                let step = self.step;
                let st = self.txs[tx].shards.get_mut(&shard).unwrap();
                st.last_abort = Some(step);
                if st.last_prepare.is_none() {
                    self.flags.abort_before_prepare = true;
                }
                if awaiting && st.voted_yes {
                    st.discarded = true;
                }
                if self.parts[shard].get_awaiting_decision().contains(&id) {
                    ctx.fail("abort-left-prepared", format!("tx#{tx}: shard {shard} still holds the transaction prepared after abort()"))?;
                }
                Ok(Step::Abort { tx, shard })
            },
        }
    }

    /// process_pending_aborts: the queued abort broadcasts go out, one Abort message per shard.
    fn flush_aborts(&mut self, ctx: &mut CaseCtx) -> Result<(), Fail> {
        let taken = self.coord.take_pending_aborts();
        let mut entries: Vec<(usize, String, Vec<usize>)> = Vec::new();
        for (id, reason, shards) in taken {
            match self.tx_index(id) {
                Some(tx) => entries.push((tx, reason, shards)),
                None => {
                    ctx.fail("abort-broadcast-for-unknown-tx", format!("an abort broadcast was queued for unknown transaction id {id}"))?;
                },
            }
        }
        // the queue order after a sweep is the iteration order of a HashMap: fix it
        entries.sort();
        for (tx, reason, shards) in entries {
            self.observe_abort(tx, &format!("abort broadcast: {reason}"), ctx)?;
            match reason.as_str() {
                "cross-shard conflict" => self.flags.cross_shard_abort = true,
                "timeout" => {},
                _ => self.flags.vote_no_abort = true,
            }
            let missing: Vec<usize> = self.txs[tx].shards.keys().copied().filter(|s| !shards.contains(s)).collect();
            if !missing.is_empty() {
                ctx.fail(
                    "abort-broadcast-misses-shard",
                    format!("tx#{tx}: the abort broadcast ({reason}) names shards {shards:?}, participants {missing:?} are missing"),
                )?;
            }
            self.txs[tx].abort_expected = None;
            self.coord.track_abort(self.txs[tx].id, shards.clone());
            let mut targets: Vec<usize> = shards.into_iter().filter(|s| self.txs[tx].shards.contains_key(s)).collect();
            targets.sort_unstable();
            targets.dedup();
            for s in targets {
                self.send(Msg::Abort { tx, shard: s });
            }
        }
        for tx in 0..self.txs.len() {
            if let Some(why) = self.txs[tx].abort_expected.take() {
                let sig = if why == "timeout" { "timeout-without-abort-broadcast" } else { "aborting-without-abort-broadcast" };
                ctx.fail(
                    sig,
                    format!("tx#{tx}: the coordinator decided abort ({why}) but take_pending_aborts holds no broadcast for it"),
                )?;
            }
        }
        Ok(())
    }

    fn sweep(&mut self, ctx: &mut CaseCtx) -> Result<(), Fail> {
        if self.tiny {
            std::thread::sleep(std::time::Duration::from_millis(3));
        }
        let pending_before: Vec<usize> = (0..self.txs.len()).filter(|t| self.coord.get(self.txs[*t].id).is_some()).collect();
        let ids = self.coord.cleanup_timeouts();
        let mut swept: Vec<usize> = Vec::new();
        for id in ids {
            match self.tx_index(id) {
                Some(tx) => swept.push(tx),
                None => {
                    ctx.fail("sweep-unknown-tx", format!("cleanup_timeouts returned unknown transaction id {id}"))?;
                },
            }
        }
        swept.sort_unstable();
        for tx in &swept {
            self.observe_abort(*tx, "cleanup_timeouts", ctx)?;
            self.txs[*tx].swept_at = Some(self.step);
            self.txs[*tx].abort_expected = Some("timeout");
            self.flags.timeouts += 1;
        }
        if self.tiny {
            // sound direction only: 3 ms after the 1 ms deadline nothing begun earlier may survive a sweep
            for tx in pending_before {
                if !swept.contains(&tx) || self.coord.get(self.txs[tx].id).is_some() {
                    ctx.fail(
                        "timeout-not-swept",
                        format!("tx#{tx} was pending, its 1 ms timeout had expired for 2 ms, but cleanup_timeouts did not remove it"),
                    )?;
                }
            }
        }
        self.flush_aborts(ctx)
    }

    fn try_commit(&mut self, sel: u8, ctx: &mut CaseCtx) -> Result<(), Fail> {
        let tx = if (sel as usize) < MAX_TXS {
            if (sel as usize) < self.txs.len() {
                Some(sel as usize)
            } else {
                None
            }
        } else {
            (0..self.txs.len()).find(|t| self.txs[*t].seen_prepared && self.txs[*t].decision.is_none())
        };
        let Some(tx) = tx else {
            self.flags.skipped += 1;
            return Ok(());
        };
        if !self.txs[tx].seen_prepared {
            self.flags.early_commit_attempt = true;
        }
        match self.coord.commit(self.txs[tx].id) {
            Ok(()) => {
                self.txs[tx].commit_ok += 1;
                if self.txs[tx].commit_ok > 1 {
                    ctx.fail("commit-decided-twice", format!("tx#{tx}: commit() returned Ok a second time"))?;
                }
                self.observe_commit(tx, ctx)?;
                let missing: Vec<usize> =
                    self.txs[tx].shards.iter().filter(|(_, s)| s.accepted != Some(true)).map(|(k, _)| *k).collect();
                if !missing.is_empty() {
                    ctx.fail(
                        "commit-without-all-yes-votes",
                        format!("tx#{tx}: commit() returned Ok but record_vote had accepted no yes vote from shards {missing:?}"),
                    )?;
                }
                self.flags.commits += 1;
                let shards: Vec<usize> = self.txs[tx].shards.keys().copied().collect();
                for s in shards {
                    self.send(Msg::Commit { tx, shard: s });
                }
            },
            Err(_) => self.flags.commit_refused = true,
        }
        Ok(())
    }

    fn client_abort(&mut self, sel: u8, ctx: &mut CaseCtx) -> Result<(), Fail> {
        let tx = sel as usize;
        if tx >= self.txs.len() {
            self.flags.skipped += 1;
            return Ok(());
        }
        if self.coord.abort(self.txs[tx].id, "client abort").is_ok() {
            self.observe_abort(tx, "abort() returned Ok", ctx)?;
            self.flags.client_aborts += 1;
            // the abort broadcast of an Aborting transaction may still be queued; it stays queued
            let shards: Vec<usize> = self.txs[tx].shards.keys().copied().collect();
            for s in shards {
                self.send(Msg::Abort { tx, shard: s });
            }
        }
        Ok(())
    }

    fn stray_vote(&mut self, sel: u8, yes: bool, ctx: &mut CaseCtx) -> Result<(), Fail> {
        let tx = sel as usize;
        if tx >= self.txs.len() {
            self.flags.skipped += 1;
            return Ok(());
        }
        // a shard id the transaction does not involve (an id beyond the cluster if it involves all)
        let stray = (0..self.parts.len()).find(|s| !self.txs[tx].shards.contains_key(s)).unwrap_or(self.parts.len() + 4);
        let vote = if yes {
            PrepareVote::Yes { lock_handle: 9_000_000 + tx as u64, delta: tensor_chain::DeltaVector::zero(4) }
        } else {
            PrepareVote::No { reason: "stray".to_string() }
        };
        match self.coord.record_vote(self.txs[tx].id, stray, vote) {
            Ok(phase) => {
                ctx.label(if yes { "a yes vote naming a non-participant shard was accepted" } else { "a no vote naming a non-participant shard was accepted" });
                match phase {
                    Some(TxPhase::Prepared) => {
                        let missing: Vec<usize> = self.txs[tx].shards.iter().filter(|(_, s)| s.accepted != Some(true)).map(|(k, _)| *k).collect();
                        if !missing.is_empty() {
                            ctx.fail(
                                "prepared-without-all-yes-votes",
                                format!("tx#{tx}: a vote naming shard {stray}, which is not a participant, made record_vote report Prepared although no yes vote was accepted from participants {missing:?}"),
                            )?;
                        }
                        self.txs[tx].seen_prepared = true;
                    },
                    Some(TxPhase::Aborting) => {
                        // aborting is always allowed before a commit decision
                        self.observe_abort(tx, "record_vote (stray vote) returned Aborting", ctx)?;
                        self.txs[tx].abort_expected = Some("vote");
                    },
                    _ => {},
                }
            },
            Err(_) => {
                self.flags.rejected_votes.insert("stray vote rejected");
            },
        }
        Ok(())
    }

    fn apply(&mut self, op: &Op, ctx: &mut CaseCtx) -> Result<Step, Fail> {
        match op {
            Op::Begin(spec) => {
                self.begin(spec, ctx)?;
                Ok(Step::Coordinator)
            },
            Op::Deliver(i) => {
                if self.bag.is_empty() {
                    self.flags.skipped += 1;
                    return Ok(Step::Network);
                }
                let k = pick(*i, self.bag.len());
                if k > 0 {
                    self.flags.out_of_order += 1;
                }
                self.deliver(k, ctx)
            },
            Op::Drop(i) => {
                if self.bag.is_empty() {
                    self.flags.skipped += 1;
                    return Ok(Step::Network);
                }
                let m = self.bag.remove(pick(*i, self.bag.len()));
                self.flags.drops += 1;
                match m.msg {
                    Msg::Commit { tx, shard } => self.txs[tx].shards.get_mut(&shard).unwrap().commit_dropped = true,
                    Msg::Abort { tx, shard } => self.txs[tx].shards.get_mut(&shard).unwrap().abort_dropped = true,
                    _ => {},
                }
                Ok(Step::Network)
            },
            Op::Duplicate(i) => {
                if self.bag.is_empty() {
                    self.flags.skipped += 1;
                    return Ok(Step::Network);
                }
                let c = self.bag[pick(*i, self.bag.len())].clone();
                self.bag.push(c);
                self.flags.dups += 1;
                Ok(Step::Network)
            },
            Op::Sweep => {
                self.sweep(ctx)?;
                Ok(Step::Coordinator)
            },
            Op::Flush => {
                self.flush_aborts(ctx)?;
                Ok(Step::Coordinator)
            },
            Op::TryCommit(sel) => {
                self.try_commit(*sel, ctx)?;
                Ok(Step::Coordinator)
            },
            Op::ClientAbort(sel) => {
                self.client_abort(*sel, ctx)?;
                Ok(Step::Coordinator)
            },
            Op::StrayVote { sel, yes } => {
                self.stray_vote(*sel, *yes, ctx)?;
                Ok(Step::Coordinator)
            },
        }
    }

    /// Invariants checked after every step.
    fn check(&mut self, last: Step, ctx: &mut CaseCtx) -> Result<(), Fail> {
        // coordinator's view
        for tx in 0..self.txs.len() {
            let phase = self.coord.get(self.txs[tx].id).map(|t| t.phase);
            if phase == Some(TxPhase::Aborting) {
                self.observe_abort(tx, "phase Aborting", ctx)?;
            }
            if self.txs[tx].decision == Some(Decision::Commit) && phase.is_some() {
                ctx.fail("committed-tx-still-pending", format!("tx#{tx}: commit() returned Ok but the transaction is still pending in phase {phase:?}"))?;
            }
            let prev = self.txs[tx].last_phase;
            let regress = matches!(
                (prev, phase),
                (Some(TxPhase::Aborting), Some(TxPhase::Preparing | TxPhase::Prepared | TxPhase::Committing | TxPhase::Committed))
                    | (Some(TxPhase::Prepared), Some(TxPhase::Preparing))
            );
            if regress {
                ctx.fail("phase-went-back", format!("tx#{tx}: phase went from {prev:?} to {phase:?}"))?;
            }
            if phase.is_some() {
                self.txs[tx].last_phase = phase;
            }
        }
        // applied somewhere and rolled back elsewhere
        for tx in 0..self.txs.len() {
            let applied: Vec<usize> = self.txs[tx].shards.iter().filter(|(_, s)| s.applied > 0).map(|(k, _)| *k).collect();
            let discarded: Vec<usize> = self.txs[tx].shards.iter().filter(|(_, s)| s.discarded).map(|(k, _)| *k).collect();
            if !applied.is_empty() && !discarded.is_empty() {
                ctx.fail(
                    "split:applied-and-rolled-back",
                    format!("tx#{tx}: shards {applied:?} applied the writes, shards {discarded:?} had voted yes and rolled the transaction back"),
                )?;
            }
        }
        // data: every store equals its model. The coordinator holds no reference to a store, so the
        // comparison runs after the steps that execute participant code, and at the start and the end.
        if matches!(last, Step::Coordinator | Step::Network) {
            return Ok(());
        }
        for shard in 0..self.stores.len() {
            let actual = read_store(&self.stores[shard]);
            if let Some((key, got, want)) = first_diff(&actual, &self.models[shard].data) {
                let detail = format!("shard {shard}, key {key:?}: store holds {got:?}, expected {want:?}");
                let (sig, msg) = match last {
                    Step::Prepare { tx } => {
                        ("prepare-changed-store".to_string(), format!("delivering Prepare of tx#{tx} changed the data before any decision: {detail}"))
                    },
                    Step::Commit { ok: true } => ("commit-applied-wrong-data".to_string(), format!("after a successful participant commit: {detail}")),
                    Step::Commit { ok: false } => ("refused-commit-changed-store".to_string(), format!("a refused participant commit changed the data: {detail}")),
                    Step::Abort { tx, shard: s } => {
                        // whose write was erased? a write committed under a lock key the aborted transaction did not hold
                        let locks = self.lock_keys(tx, s);
                        let foreign = self.models[shard]
                            .last_writer
                            .get(&key)
                            .is_some_and(|(t2, lk)| *t2 != tx && !locks.contains(lk));
                        if foreign && s == shard {
                            // table operations write "table:<t>:row:<id>", a key that neither their lock key
                            // ("<t>") nor their storage_key() ("table:<t>") names: a separate root cause
                            let sig = if key.starts_with("table:") && key.contains(":row:") {
                                "abort-undo-erases-write-committed-under-other-lock-key:table-row-key"
                            } else {
                                "abort-undo-erases-write-committed-under-other-lock-key"
                            };
                            (
                                sig.to_string(),
                                format!(
                                    "aborting tx#{tx} (lock keys {locks:?}) rolled back {key:?}, which tx#{} had committed under lock key {:?} in the meantime: {detail}",
                                    self.models[shard].last_writer[&key].0, self.models[shard].last_writer[&key].1
                                ),
                            )
                        } else {
                            ("abort-changed-store".to_string(), format!("aborting tx#{tx} changed the data: {detail}"))
                        }
                    },
                    Step::Coordinator | Step::Network | Step::Full => {
                        ("store-differs-from-model".to_string(), format!("a step without participant code changed a shard's data: {detail}"))
                    },
                };
                ctx.fail(sig, msg)?;
                // a recorded finding: the case stops here (run_case), because undo snapshots taken
                // before this point no longer agree with any model
                self.models[shard].data = actual;
                self.diverged = true;
            } else {
                // get() of absent keys must fail, too
                for k in PUT_KEYS.iter().copied().chain(["emb:y", "node:y", "table:t:row:2"]) {
                    if !self.models[shard].data.contains_key(k) && self.stores[shard].get(k).is_ok() {
                        ctx.fail("get-finds-unscanned-key", format!("shard {shard}: get({k:?}) succeeds but a full scan does not list the key"))?;
                    }
                }
            }
        }
        Ok(())
    }

    /// End of the history: everything still in flight is delivered in bag order, queued broadcasts go out.
    fn drain(&mut self, ctx: &mut CaseCtx) -> Result<(), Fail> {
        let mut guard = 0;
        loop {
            self.flush_aborts(ctx)?;
            self.check(Step::Coordinator, ctx)?;
            if self.bag.is_empty() {
                return Ok(());
            }
            self.step += 1;
            let st = self.deliver(0, ctx)?;
            self.check(st, ctx)?;
            if self.diverged {
                return Ok(());
            }
            guard += 1;
            if guard > 5000 {
                return Err(Fail::new("harness:drain-does-not-terminate", "the message bag did not drain in 5000 deliveries"));
            }
        }
    }

    fn final_checks(&mut self, ctx: &mut CaseCtx) -> Result<(), Fail> {
        for tx in 0..self.txs.len() {
            let id = self.txs[tx].id;
            let decision = self.txs[tx].decision;
            let shards: Vec<usize> = self.txs[tx].shards.keys().copied().collect();
            for s in shards {
                let awaiting = self.parts[s].get_awaiting_decision().contains(&id);
                let st = &self.txs[tx].shards[&s];
                match decision {
                    Some(Decision::Commit) => {
                        if st.applied == 0 {
                            if st.commit_dropped {
                                self.flags.commit_lost = true;
                            } else {
                                ctx.fail(
                                    "committed-but-shard-never-applied",
                                    format!("tx#{tx} was committed, no Commit message to shard {s} was lost, but the shard never applied the writes"),
                                )?;
                            }
                        }
                    },
                    Some(Decision::Abort) => {
                        if awaiting {
                            let reprepared = matches!((st.last_prepare, st.last_abort), (Some(p), Some(a)) if p > a);
                            if st.abort_dropped {
                                self.flags.abort_lost_left_prepared = true;
                            } else if st.last_abort.is_none() {
                                ctx.fail(
                                    "aborted-but-shard-never-told",
                                    format!("tx#{tx} was aborted, shard {s} holds it prepared, and no Abort message was ever sent to (or lost on the way to) that shard"),
                                )?;
                            } else if !reprepared {
                                ctx.fail(
                                    "aborted-tx-left-prepared",
                                    format!("tx#{tx} was aborted and the Abort reached shard {s} after its last Prepare, but the shard still holds it prepared"),
                                )?;
                            }
                        }
                    },
                    None => {},
                }
            }
        }
        Ok(())
    }
}

fn run_case(case: &Case, ctx: &mut CaseCtx) -> Result<(), Fail> {
    let mut sim = Sim::new(case);
    sim.check(Step::Full, ctx)?;
    for op in &case.ops {
        sim.step += 1;
        let st = sim.apply(op, ctx)?;
        sim.check(st, ctx)?;
        if sim.diverged {
            break;
        }
    }
    if !sim.diverged {
        sim.drain(ctx)?;
    }
    if sim.tiny && !sim.diverged {
        // every transaction gets its decision: a last sweep after the deadline, then drain again
        sim.step += 1;
        sim.sweep(ctx)?;
        sim.drain(ctx)?;
    }
    if sim.diverged {
        ctx.label("stopped at a recorded finding");
    } else {
        sim.check(Step::Full, ctx)?;
        sim.final_checks(ctx)?;
    }

    // ---- classification
    let f = &sim.flags;
    if f.late_vote {
        ctx.label("vote delivered after its transaction was swept");
    }
    if f.dup_twice {
        ctx.label("duplicated message delivered twice");
    }
    if f.overlap {
        ctx.label("two transactions prepared on an overlapping key");
    }
    if f.alias_overlap {
        ctx.label("overlap on a storage key under different lock keys");
    }
    if f.late_vote || f.dup_twice || f.overlap {
        ctx.set_nontrivial();
    }
    if f.conflict_vote {
        ctx.label("participant voted Conflict");
    }
    if f.cross_shard_abort {
        ctx.label("abort: cross-shard conflict on all-yes votes");
    }
    if f.vote_no_abort {
        ctx.label("abort: a participant voted no/conflict");
    }
    if f.timeouts > 0 {
        ctx.label("abort: timeout sweep");
    }
    if f.client_aborts > 0 {
        ctx.label("abort: client");
    }
    ctx.label(format!("commits={}", f.commits.min(3)));
    if f.early_commit_attempt {
        ctx.label("commit attempted before Prepared was seen");
    }
    if f.commit_refused {
        ctx.label("commit refused");
    }
    for r in &f.rejected_votes {
        ctx.label(*r);
    }
    if f.double_apply {
        ctx.label("duplicate Prepare+Commit: writes applied twice on a shard");
    }
    if f.orphan_prepare {
        ctx.label("Prepare delivered after the decision (orphan prepared entry)");
    }
    if f.prepare_after_abort {
        ctx.label("Prepare delivered after Abort");
    }
    if f.abort_before_prepare {
        ctx.label("Abort delivered before any Prepare");
    }
    if f.drops > 0 {
        ctx.label("message dropped");
    }
    if f.out_of_order > 0 {
        ctx.label("out-of-order delivery");
    }
    if f.commit_lost {
        ctx.label("Commit message lost: shard never applied");
    }
    if f.abort_lost_left_prepared {
        ctx.label("Abort message lost: shard left prepared");
    }
    if sim.tiny {
        ctx.label("short-timeout regime");
    }
    ctx.label(format!("txs={}", sim.txs.len()));
    ctx.label(format!("shards={}", sim.parts.len()));
    let undecided = sim.txs.iter().filter(|t| t.decision.is_none()).count();
    if undecided > 0 {
        ctx.label("undecided transaction at the end");
    }
    let committed_multi = sim.txs.iter().any(|t| t.decision == Some(Decision::Commit) && t.shards.len() >= 2);
    if committed_multi {
        ctx.label("multi-shard transaction committed");
    }
    ctx.note = Some(serde_json::json!({
        "decisions": sim.txs.iter().map(|t| format!("{:?}", t.decision)).collect::<Vec<_>>(),
        "timeouts": f.timeouts,
        "dups": f.dups,
        "drops": f.drops,
        "skipped_ops": f.skipped,
    }));
    Ok(())
}

fn main() {
    main_for(PropDef {
        id: "C03",
        level: "exploration",
        rule: "message-level histories of up to 60 (quick) / 90 (thorough) events (begin, deliver/drop/duplicate by bag index, timeout sweep, abort-broadcast flush, commit attempt, client abort) over one real DistributedTxCoordinator and 2-3 real TxParticipants with pre-seeded stores, 1-3 transactions of 1-3 operations per shard over a 7-key pool with lock-key/storage-key aliases; 20% of histories run with a 1 ms prepare timeout (sweeps sleep 3 ms first); non-trivial = the history contains a vote delivered after its transaction was swept by a timeout, or a duplicated message of which two copies were delivered, or two transactions whose Prepare reached one shard with an overlapping lock or storage key; distinct = distinct generated history (hash of its JSON)",
        assumptions: vec![
            "the harness is the network and the glue: Prepare -> TxParticipant::prepare and a vote (network.rs TxHandler), vote -> record_vote with the result ignored (cluster.rs), Commit/Abort -> participant.commit/abort; acknowledgements are not modelled (they do not influence a decision)",
            "the glue may call coordinator.commit at any time (cluster.rs calls it on every incoming TxCommit) and sends Commit messages only after Ok; a client abort sends Abort messages after abort() returned Ok",
            "timeouts are never predicted: the ids returned by cleanup_timeouts are read; in the 1 ms regime each sweep sleeps 3 ms first and only the sound direction (everything pending is swept) is asserted",
            "participant-side unilateral cleanup (cleanup_stale / recover) and coordinator restart are outside the quantifier and are not generated",
            "a transaction whose duplicated Prepare and duplicated Commit are both delivered is applied twice on that shard; the model follows the participant's reported applications in order (counted, not a violation of this property)",
            "liveness is not asserted: lost messages may leave transactions undecided or participants prepared; only 'decided and nothing lost' end states are checked",
            "prace: 2-3 threads run 1-2 transactions each (Put over 2 shared keys, prepare then commit or abort) against one real TxParticipant under the deterministic scheduler at the dtx.part.* hooks; the order of Yes votes on a key is taken as the order of its writes (key locks are exclusive from the vote to the end of commit/abort)",
        ],
        parts: vec![
            PropPart::new("sim", 50_000, 1_200_000, gen::case_strategy, run_case).shrink_iters(4000).boxed(),
            // threads interleaved inside coordinator commit()/abort() (scheduler + yield hooks)
            PropPart::new("race", 3000, 60_000, |_| race::strategy(), race::check).shrink_iters(60).boxed(),
            // threads interleaved inside ONE participant's prepare()/commit()/abort()
            PropPart::new("prace", 6000, 120_000, |_| prace::strategy(), prace::check).shrink_iters(200).boxed(),
        ],
        children: vec![],
    });
}
