//! C03 `prace` part: several threads drive ONE real `TxParticipant` (prepare / commit / abort of
//! their own transactions over a tiny shared key pool) under the deterministic scheduler, which
//! switches threads at the yield hooks inside the participant (dtx.part.prepare.locking /
//! .locked, dtx.part.commit.applied, dtx.part.abort.undone) and at operation boundaries.
//!
//! The participant is called from network handler threads, so a Prepare of one transaction and the
//! Commit / Abort of another reach one shard concurrently. Oracle ("an aborted transaction leaves
//! no trace, a committed one is applied exactly once"): key locks are exclusive from a Yes vote to
//! the end of commit/abort, hence the order of Yes votes on a key is the order of the writes; at
//! quiescence every key must hold the value of the last COMMITTED transaction in that order (the
//! pre-seeded value if there is none), and no lock may be left.

use nv_engine::{sched, CaseCtx, Fail};
use proptest::prelude::*;
use serde::{Deserialize, Serialize};
use std::sync::atomic::{AtomicU64, Ordering};
use std::sync::{Arc, Mutex};
use std::time::Duration;
use tensor_chain::block::Transaction;
use tensor_chain::distributed_tx::{PrepareRequest, PrepareVote, TxParticipant};
use tensor_store::{ScalarValue, SparseVector, TensorData, TensorStore, TensorValue};

const KEYS: [&str; 2] = ["k0", "k1"];

#[derive(Clone, Debug, Serialize, Deserialize)]
pub struct TxScript {
    /// bit i set = writes KEYS[i] (0 is mapped to key 0)
    pub keys: u8,
    pub commit: bool,
}

#[derive(Clone, Debug, Serialize, Deserialize)]
pub struct PraceCase {
    pub threads: Vec<Vec<TxScript>>,
    pub schedule: Vec<u16>,
}

pub fn strategy() -> impl Strategy<Value = PraceCase> {
    let tx = (1u8..=3, prop::bool::weighted(0.5)).prop_map(|(keys, commit)| TxScript { keys, commit });
    (prop::collection::vec(prop::collection::vec(tx, 1..=2), 2..=3), prop::collection::vec(any::<u16>(), 0..40))
        .prop_map(|(threads, schedule)| PraceCase { threads, schedule })
}

#[derive(Clone, Debug)]
struct Rec {
    tx: u64,
    keys: Vec<usize>,
    /// stamp taken when prepare returned Yes
    yes_at: u64,
    committed: bool,
}

fn value_of(store: &TensorStore, key: &str) -> Option<Vec<u8>> {
    let t = store.get(key).ok()?;
    match t.get("data") {
        Some(TensorValue::Scalar(ScalarValue::Bytes(b))) => Some(b.clone()),
        _ => None,
    }
}

fn data_for(tx: u64) -> Vec<u8> {
    format!("tx{tx}").into_bytes()
}

pub fn check(c: &PraceCase, ctx: &mut CaseCtx) -> Result<(), Fail> {
    let store = TensorStore::new();
    for k in KEYS {
        let mut t = TensorData::new();
        t.set("data", TensorValue::Scalar(ScalarValue::Bytes(b"init".to_vec())));
        store.put(k, t).map_err(|e| Fail::new("harness", e.to_string()))?;
    }
    let part = Arc::new(TxParticipant::new(store.clone()));
    let stamp = Arc::new(AtomicU64::new(1));
    let recs: Arc<Mutex<Vec<Rec>>> = Arc::new(Mutex::new(Vec::new()));
    let refused = Arc::new(AtomicU64::new(0));

    let mut scripts: Vec<Box<dyn FnOnce() + Send>> = Vec::new();
    for (ti, txs) in c.threads.iter().enumerate() {
        let (part, stamp, recs, refused, txs) = (part.clone(), stamp.clone(), recs.clone(), refused.clone(), txs.clone());
        scripts.push(Box::new(move || {
            for (j, t) in txs.iter().enumerate() {
                let tx_id = 100 * (ti as u64 + 1) + j as u64;
                let keys: Vec<usize> = (0..KEYS.len()).filter(|i| t.keys & (1 << i) != 0).collect();
                let keys = if keys.is_empty() { vec![0] } else { keys };
                let operations: Vec<Transaction> =
                    keys.iter().map(|i| Transaction::Put { key: KEYS[*i].to_string(), data: data_for(tx_id) }).collect();
                sched::op_boundary();
                let vote = part.prepare(PrepareRequest {
                    tx_id,
                    coordinator: "coord".to_string(),
                    operations,
                    delta_embedding: SparseVector::new(0),
                    timeout_ms: 3_600_000,
                });
                if !matches!(vote, PrepareVote::Yes { .. }) {
                    refused.fetch_add(1, Ordering::SeqCst);
                    continue;
                }
                let yes_at = stamp.fetch_add(1, Ordering::SeqCst);
                sched::op_boundary();
                let committed = if t.commit {
                    part.commit(tx_id).success
                } else {
                    part.abort(tx_id);
                    false
                };
                recs.lock().unwrap().push(Rec { tx: tx_id, keys, yes_at, committed });
            }
        }));
    }
    // the store's own yield points let the scheduler switch threads BETWEEN the writes of a commit
    // or of an abort's undo (key locks must cover that whole stretch)
    let sites = ["dtx.part.prepare.locking", "dtx.part.prepare.locked", "dtx.part.commit.applied", "dtx.part.abort.undone", "store.meta.set", "store.put.applied"];
    let report = sched::run(scripts, &c.schedule, &sites, Duration::from_millis(40));
    if let Some((t, m)) = report.panics.first() {
        ctx.fail("prace:panic-in-thread", format!("thread {t} panicked: {m}"))?;
    }

    let mut recs = recs.lock().unwrap().clone();
    recs.sort_by_key(|r| r.yes_at);
    let inside = report.trace.iter().filter(|(_, s)| s.starts_with("dtx.part.")).count();
    // non-trivial: two transactions with a common key both voted Yes (one after the other), or a
    // prepare was refused because of a lock held by a transaction of another thread
    let mut overlap = false;
    for (i, a) in recs.iter().enumerate() {
        for b in &recs[i + 1..] {
            if a.tx / 100 != b.tx / 100 && a.keys.iter().any(|k| b.keys.contains(k)) {
                overlap = true;
            }
        }
    }
    if overlap {
        ctx.label("two transactions of different threads wrote a common key one after the other");
        ctx.set_nontrivial();
    }
    if refused.load(Ordering::SeqCst) > 0 {
        ctx.label("a prepare met a key locked by another transaction");
        ctx.set_nontrivial();
    }
    if report.blocked_events > 0 {
        ctx.label("a thread blocked on a participant lock while another was parked inside");
    }
    if inside > 0 {
        ctx.label("threads switched inside prepare/commit/abort");
    }

    for (ki, k) in KEYS.iter().enumerate() {
        let mut want = b"init".to_vec();
        let mut story = Vec::new();
        for r in recs.iter().filter(|r| r.keys.contains(&ki)) {
            story.push(format!("tx{}:{}", r.tx, if r.committed { "commit" } else { "abort" }));
            if r.committed {
                want = data_for(r.tx);
            }
        }
        let got = value_of(&store, k);
        if got.as_deref() != Some(&want[..]) {
            let show = |b: &Option<Vec<u8>>| b.as_ref().map_or("<absent>".to_string(), |b| String::from_utf8_lossy(b).to_string());
            let last = recs.iter().filter(|r| r.keys.contains(&ki)).last();
            let kind = match last {
                Some(r) if !r.committed => "aborted-tx-left-a-trace",
                Some(_) => "committed-write-lost",
                None => "untouched-key-changed",
            };
            ctx.fail(
                format!("prace:{kind}"),
                format!(
                    "key {k}: store holds {} but the transactions that held its lock, in lock order [{}], leave {}",
                    show(&got),
                    story.join(", "),
                    String::from_utf8_lossy(&want)
                ),
            )?;
        }
    }

    // no lock left: a fresh transaction over every key must be accepted
    let probe = part.prepare(PrepareRequest {
        tx_id: 9_999,
        coordinator: "coord".to_string(),
        operations: KEYS.iter().map(|k| Transaction::Put { key: (*k).to_string(), data: b"probe".to_vec() }).collect(),
        delta_embedding: SparseVector::new(0),
        timeout_ms: 3_600_000,
    });
    if !matches!(probe, PrepareVote::Yes { .. }) {
        ctx.fail("prace:lock-left-at-quiescence", format!("every transaction is finished but a fresh prepare over all keys was refused: {probe:?}"))?;
    }
    part.abort(9_999);
    if part.prepared_count() != 0 {
        ctx.fail("prace:prepared-left-at-quiescence", format!("{} prepared transactions left", part.prepared_count()))?;
    }
    Ok(())
}
