//! C03 `race` part: coordinator calls of several threads interleaved INSIDE commit()/abort() under
//! the deterministic scheduler (yield hooks dtx.commit.deciding / dtx.commit.logged /
//! dtx.abort.deciding). "Coordinator timeouts firing at any point" includes the point between the
//! commit decision and the removal of the transaction. Oracle: at most one decision per transaction.

use nv_engine::{sched, CaseCtx, Fail};
use proptest::prelude::*;
use serde::{Deserialize, Serialize};
use std::sync::{Arc, Mutex};
use std::time::Duration;
use tensor_chain::consensus::{ConsensusManager, DeltaVector};
use tensor_chain::distributed_tx::{DistributedTxConfig, DistributedTxCoordinator, PrepareVote};

#[derive(Clone, Debug, Serialize, Deserialize)]
pub enum Act {
    Commit,
    Abort,
    /// timeout sweep (the transaction's deadline has passed: 1 ms timeout, the case sleeps 3 ms first)
    Sweep,
    /// a late duplicate vote
    LateVote(bool),
}

#[derive(Clone, Debug, Serialize, Deserialize)]
pub struct RaceCase {
    pub shards: u8,
    pub threads: Vec<Vec<Act>>,
    pub schedule: Vec<u16>,
}

pub fn strategy() -> impl Strategy<Value = RaceCase> {
    let act = prop_oneof![4 => Just(Act::Commit), 2 => Just(Act::Abort), 4 => Just(Act::Sweep), 1 => any::<bool>().prop_map(Act::LateVote)];
    (2u8..=3, prop::collection::vec(prop::collection::vec(act, 1..=2), 2..=3), prop::collection::vec(any::<u16>(), 0..24))
        .prop_map(|(shards, threads, schedule)| RaceCase { shards, threads, schedule })
}

#[derive(Default)]
struct Seen {
    commit_ok: u32,
    abort_ok: u32,
    swept: u32,
    abort_broadcast: u32,
}

pub fn check(c: &RaceCase, ctx: &mut CaseCtx) -> Result<(), Fail> {
    let mut cfg = DistributedTxConfig::default();
    cfg.prepare_timeout_ms = 1;
    let coord = Arc::new(DistributedTxCoordinator::new(ConsensusManager::default_config(), cfg));
    let parts: Vec<usize> = (0..c.shards as usize).collect();
    let tx = coord.begin(&"coord".to_string(), &parts).map_err(|e| Fail::new("harness", e.to_string()))?;
    let id = tx.tx_id;
    for (k, s) in parts.iter().enumerate() {
        let r = coord.record_vote(id, *s, PrepareVote::Yes { lock_handle: 1000 + k as u64, delta: DeltaVector::zero(0) });
        if r.is_err() {
            return Err(Fail::new("harness", "vote refused during setup"));
        }
    }
    // the deadline (1 ms) passes before any thread runs
    std::thread::sleep(Duration::from_millis(3));
    let seen = Arc::new(Mutex::new(Seen::default()));
    let mut scripts: Vec<Box<dyn FnOnce() + Send>> = Vec::new();
    for acts in &c.threads {
        let (coord, seen, acts) = (coord.clone(), seen.clone(), acts.clone());
        scripts.push(Box::new(move || {
            for a in acts {
                sched::op_boundary();
                match a {
                    Act::Commit => {
                        if coord.commit(id).is_ok() {
                            seen.lock().unwrap().commit_ok += 1;
                        }
                    },
                    Act::Abort => {
                        if coord.abort(id, "client").is_ok() {
                            seen.lock().unwrap().abort_ok += 1;
                        }
                    },
                    Act::Sweep => {
                        let ids = coord.cleanup_timeouts();
                        let n = ids.iter().filter(|x| **x == id).count() as u32;
                        let b = coord.take_pending_aborts().iter().filter(|(t, _, _)| *t == id).count() as u32;
                        let mut s = seen.lock().unwrap();
                        s.swept += n;
                        s.abort_broadcast += b;
                    },
                    Act::LateVote(yes) => {
                        let v = if yes { PrepareVote::Yes { lock_handle: 7, delta: DeltaVector::zero(0) } } else { PrepareVote::No { reason: "late".into() } };
                        let _ = coord.record_vote(id, 0, v);
                    },
                }
            }
        }));
    }
    let report = sched::run(scripts, &c.schedule, &["dtx.commit.deciding", "dtx.commit.logged", "dtx.abort.deciding"], Duration::from_millis(40));
    if let Some((t, m)) = report.panics.first() {
        ctx.fail("race:panic-in-thread", format!("thread {t} panicked: {m}"))?;
    }
    let s = seen.lock().unwrap();
    let b2 = coord.take_pending_aborts().iter().filter(|(t, _, _)| *t == id).count() as u32;
    let abort_kinds = u32::from(s.abort_ok > 0) + u32::from(s.swept > 0) + u32::from(s.abort_broadcast + b2 > 0 && s.swept == 0 && s.abort_ok == 0);
    let parked_inside = report.trace.iter().any(|(_, site)| site.starts_with("dtx."));
    if parked_inside {
        ctx.label("a thread was parked inside commit()/abort()");
    }
    if report.blocked_events > 0 {
        ctx.label("another thread blocked on the coordinator's lock meanwhile");
        ctx.set_nontrivial();
    }
    if s.commit_ok > 0 && (s.abort_ok > 0 || s.swept > 0 || s.abort_broadcast + b2 > 0) {
        ctx.fail(
            "race:decided-twice:commit-and-abort",
            format!(
                "the coordinator decided transaction {id} twice: commit() returned Ok {}x, abort() returned Ok {}x, timeout sweeps returned it {}x, abort broadcasts queued {}",
                s.commit_ok,
                s.abort_ok,
                s.swept,
                s.abort_broadcast + b2
            ),
        )?;
    }
    if s.commit_ok > 1 {
        ctx.fail("race:committed-twice", format!("commit() returned Ok {} times for one transaction", s.commit_ok))?;
    }
    if s.abort_ok + s.swept > 1 {
        ctx.fail("race:aborted-twice", format!("abort Ok {}x, swept {}x", s.abort_ok, s.swept))?;
    }
    let _ = abort_kinds;
    if coord.get(id).is_some() && (s.commit_ok > 0 || s.abort_ok > 0 || s.swept > 0) {
        ctx.fail("race:decided-tx-still-pending", "a decided transaction is still pending at quiescence")?;
    }
    Ok(())
}
