//! C19 — Blob store returns the stored bytes and never collects live data.
//!
//! Parts:
//!  * `seq`    0..25 (40) operations on one `BlobStore` over a fresh TensorStore — put, streamed
//!             open/write/finish/abandon with several writers open at once, delete, gc, full_gc,
//!             repair, verify, get, streamed read, exists, chunk damage — against an exact model of
//!             artifacts, chunk records and reference counts. Chunk size 16..64; content built from
//!             a pool of chunk-sized blocks (overlap across and within artifacts); sizes 0, 1, c-1,
//!             c, c+1, k*c. Simulated clock: gc_min_age = 1 h, `Tick` moves every chunk 2 h back.
//!  * `sleep`  the same interpreter with gc_min_age = 0 and the real clock: N stores are driven,
//!             ONE sleep of 1.1 s, then gc + read-back + more operations on all of them.
//!  * `sched`  2..4 scripted threads (writers/deleters of overlapping content, collectors) under
//!             the deterministic scheduler with the `blob.chunk.rmw` / `blob.refs.rmw` yield points;
//!             quiescence checks: read-back, reference counts vs live references, delete + gc,
//!             full_gc leaves exactly the live chunks.
//!  * `stress` (thorough) real threads writing/deleting the same blocks; failing unit = recorded outcome.

mod common;
mod sched;
mod seq;

use nv_engine::{main_for, CaseCtx, CustomPart, Fail, PropDef, PropPart, Violation};
use proptest::prelude::*;
use proptest::strategy::ValueTree;
use proptest::test_runner::{Config, RngAlgorithm, TestRng, TestRunner};
use seq::{ops_strategy, Op, Run};
use serde::{Deserialize, Serialize};

#[derive(Clone, Debug, Serialize, Deserialize)]
struct SleepCase {
    chunk: u8,
    before: Vec<Op>,
    after: Vec<Op>,
}

fn sleep_one(case: &SleepCase, findings: &nv_engine::Findings, strict: bool) -> Result<(), Fail> {
    let mut ctx = CaseCtx::new(findings, strict);
    let mut run = Run::new(case.chunk as usize, true)?;
    for op in &case.before {
        run.step(op, &mut ctx)?;
    }
    std::thread::sleep(std::time::Duration::from_millis(1100));
    sleep_after(case, &mut run, &mut ctx)
}

fn sleep_after(case: &SleepCase, run: &mut Run, ctx: &mut CaseCtx) -> Result<(), Fail> {
    run.mark_all_aged();
    run.step(&Op::Gc, ctx)?;
    for op in &case.after {
        run.step(op, ctx)?;
    }
    run.step(&Op::Gc, ctx)?;
    run.finish_case(ctx)
}

fn sleep_part() -> CustomPart {
    CustomPart {
        name: "sleep",
        run: Box::new(|cfg, findings, stats| {
            let n = cfg.cases(256, 3000) as usize;
            let seed = nv_engine::mix(cfg.seed ^ nv_engine::fnv64(b"sleep"));
            let mut sb = [0u8; 32];
            sb[..8].copy_from_slice(&seed.to_le_bytes());
            sb[8..16].copy_from_slice(&nv_engine::mix(seed).to_le_bytes());
            let mut runner = TestRunner::new_with_rng(Config::default(), TestRng::from_seed(RngAlgorithm::ChaCha, &sb));
            let strat = (16u8..=64, ops_strategy(15), ops_strategy(10)).prop_map(|(chunk, before, after)| SleepCase { chunk, before, after });
            let cases: Vec<SleepCase> = (0..n).filter_map(|_| strat.new_tree(&mut runner).ok().map(|t| t.current())).collect();
            let mut ctxs: Vec<CaseCtx> = cases.iter().map(|_| CaseCtx::new(findings, false)).collect();
            let mut runs: Vec<Run> = Vec::new();
            let mut failure: Option<(usize, Fail)> = None;
            'a: for (i, case) in cases.iter().enumerate() {
                let mut run = match Run::new(case.chunk as usize, true) {
                    Ok(r) => r,
                    Err(f) => {
                        failure = Some((i, f));
                        break 'a;
                    },
                };
                for op in &case.before {
                    if let Err(f) = run.step(op, &mut ctxs[i]) {
                        failure = Some((i, f));
                        break 'a;
                    }
                }
                runs.push(run);
            }
            if failure.is_none() {
                // the one wall-clock wait of this check: everything stored so far was created in an
                // earlier second than any later gc observes
                std::thread::sleep(std::time::Duration::from_millis(1100));
                for (i, case) in cases.iter().enumerate() {
                    if let Err(f) = sleep_after(case, &mut runs[i], &mut ctxs[i]) {
                        failure = Some((i, f));
                        break;
                    }
                }
            }
            for (i, run) in runs.iter().enumerate() {
                stats.evaluations += 1;
                for l in run.marks.borrow().iter() {
                    stats.label(l);
                }
                for s in &run.known_sigs {
                    stats.excluded(s);
                }
                if ctxs[i].nontrivial {
                    let js = serde_json::to_string(&cases[i]).unwrap_or_default();
                    if stats.nontrivial.insert(nv_engine::fnv64(js.as_bytes())) && stats.samples.is_empty() {
                        stats.sample(serde_json::json!({ "case": cases[i] }));
                    }
                }
            }
            failure.map(|(i, f)| {
                let case = serde_json::to_value(&cases[i]).unwrap_or_default();
                let path = nv_engine::runner::write_replay(cfg, "sleep", &f, &case);
                Violation { part: "sleep".into(), sig: f.sig, msg: f.msg, replay: path }
            })
        }),
        replay: Box::new(|case, findings, strict| {
            let c: SleepCase = serde_json::from_value(case.clone()).map_err(|e| Fail::new("replay-format", e.to_string()))?;
            sleep_one(&c, findings, strict)
        }),
    }
}

fn main() {
    main_for(PropDef {
        id: "C19",
        level: "exploration",
        rule: "seq/sleep: non-trivial = the history deletes an artifact that shares >= 1 chunk with another live artifact and later runs a collection (gc or full_gc), or it stores an artifact containing the same chunk twice. sched: non-trivial = the schedule puts two threads inside the same read-modify-write window at the same time (exists-check..put/increment of store_chunk, or read..write-back of a reference count; scheduler-reported overlaps). stress: every round. distinct = distinct generated case (hash of its JSON)",
        assumptions: vec![
            "seq/sched use gc_min_age = 3600 s and simulate the passing of time by moving the _created field of every stored chunk 7200 s into the past (the field is read only by the incremental collector's age test); the sleep part uses gc_min_age = 0 and one real 1.1 s sleep, after which chunks created before the sleep must be collectible and younger unreferenced chunks may or may not be collected",
            "gc_batch_size is set above the number of chunks, so one gc cycle examines every chunk (with a smaller batch the set examined depends on the store's scan order)",
            "put of empty data is documented to be rejected; an empty artifact is created through the streaming writer only",
            "sequential parts assert the reference count of every chunk exactly (occurrences in live artifacts + chunks held by open or abandoned writers); in the concurrent parts an over-count is only labelled (leak), an under-count is a failure because a later delete + gc frees a chunk that is still needed",
            "a streaming writer left open across full_gc/repair is treated as a legal sequence (nothing in the API or the book forbids it; the book recommends periodic full_gc for concurrent workloads)",
            "the scheduler owns the interleaving only at blob.chunk.rmw, blob.refs.rmw and operation boundaries; each scripted thread may delete only its own share of the artifacts (no two concurrent deletes of one artifact); the background GC task (start()) is never started",
            "verify reports damage by returning Ok(false) or an error; only Ok(true) on a damaged artifact is a failure",
        ],
        parts: vec![
            PropPart::new("seq", 100_000, 2_000_000, seq::seq_strategy, seq::seq_check).boxed(),
            Box::new(sleep_part()),
            PropPart::new("sched", 6_000, 120_000, sched::sched_strategy, sched::sched_check).shrink_iters(1200).boxed(),
            Box::new(sched::stress_part()),
        ],
        children: vec![],
    });
}
