//! Sequential histories on one BlobStore against an exact reference model.

use crate::common::*;
use nv_engine::{pick, CaseCtx, Fail, Tier};
use proptest::prelude::*;
use serde::{Deserialize, Serialize};
use std::cell::RefCell;
use std::collections::{BTreeMap, BTreeSet};
use std::time::Duration;
use tensor_blob::{BlobConfig, BlobStore, BlobWriter, PutOptions};
use tensor_store::{ScalarValue, TensorValue};

#[derive(Clone, Debug, Serialize, Deserialize)]
pub enum Dmg {
    /// flip one bit of the byte at (index mod length)
    Flip(u16),
    Remove,
    Truncate,
}

#[derive(Clone, Debug, Serialize, Deserialize)]
pub enum Op {
    Put(Data),
    Open,
    /// (writer, content, split: 0 = one write call, n = pieces of n bytes)
    Write(u16, Data, u8),
    Finish(u16),
    /// open a writer, write the parts (content, split), finish — in one go
    Stream(Vec<(Data, u8)>),
    Abandon(u16),
    Delete(u16),
    /// simulated time passes (AGE_SECS): every stored chunk becomes older than gc_min_age
    Tick,
    Gc,
    FullGc,
    Repair,
    Verify(u16),
    Get(u16),
    /// streamed read with a buffer of that many bytes
    Read(u16, u8),
    Exists(u16),
    /// (artifact, chunk position, damage): damage one chunk record, check verify on every
    /// artifact, restore the record
    Damage(u16, u16, Dmg),
}

impl Op {
    pub fn kind(&self) -> &'static str {
        match self {
            Op::Put(_) => "put",
            Op::Open => "open",
            Op::Write(..) => "write",
            Op::Finish(_) => "finish",
            Op::Stream(_) => "stream",
            Op::Abandon(_) => "abandon",
            Op::Delete(_) => "delete",
            Op::Tick => "tick",
            Op::Gc => "gc",
            Op::FullGc => "full_gc",
            Op::Repair => "repair",
            Op::Verify(_) => "verify",
            Op::Get(_) => "get",
            Op::Read(..) => "read",
            Op::Exists(_) => "exists",
            Op::Damage(..) => "damage",
        }
    }
}

#[derive(Clone, Debug, Serialize, Deserialize)]
pub struct SeqCase {
    pub chunk: u8,
    pub ops: Vec<Op>,
}

pub fn data_strategy(pool: u8, max_blocks: usize, plain: bool) -> BoxedStrategy<Data> {
    let head = if plain { Just(0u8).boxed() } else { prop_oneof![12 => Just(0u8), 1 => 1u8..64].boxed() };
    let blocks = prop_oneof![
        8 => prop::collection::vec(0..pool, 0..=max_blocks),
        1 => prop::collection::vec(0..pool, 0..=max_blocks * 3),
    ];
    let tail = if plain {
        prop_oneof![6 => Just(Tail::None), 1 => (0..pool).prop_map(Tail::One)].boxed()
    } else {
        prop_oneof![
            6 => Just(Tail::None),
            2 => (0..pool).prop_map(Tail::One),
            2 => (0..pool).prop_map(Tail::AllButOne),
            2 => (0..pool, 0u8..64).prop_map(|(b, l)| Tail::Part(b, l)),
        ]
        .boxed()
    };
    (head, blocks, tail).prop_map(|(head, blocks, tail)| Data { head, blocks, tail }).boxed()
}

fn op_strategy() -> impl Strategy<Value = Op> {
    let d = || data_strategy(5, 4, false);
    prop_oneof![
        6 => d().prop_map(Op::Put),
        2 => Just(Op::Open),
        5 => (any::<u16>(), d(), prop_oneof![3 => Just(0u8), 1 => 1u8..40]).prop_map(|(w, d, s)| Op::Write(w, d, s)),
        3 => any::<u16>().prop_map(Op::Finish),
        4 => prop::collection::vec((d(), prop_oneof![3 => Just(0u8), 1 => 1u8..40]), 1..=3).prop_map(Op::Stream),
        1 => any::<u16>().prop_map(Op::Abandon),
        5 => any::<u16>().prop_map(Op::Delete),
        4 => Just(Op::Tick),
        5 => Just(Op::Gc),
        2 => Just(Op::FullGc),
        1 => Just(Op::Repair),
        1 => any::<u16>().prop_map(Op::Verify),
        1 => any::<u16>().prop_map(Op::Get),
        2 => (any::<u16>(), 1u8..90).prop_map(|(a, b)| Op::Read(a, b)),
        1 => any::<u16>().prop_map(Op::Exists),
        2 => (any::<u16>(), any::<u16>(), prop_oneof![any::<u16>().prop_map(Dmg::Flip), Just(Dmg::Remove), Just(Dmg::Truncate)])
            .prop_map(|(a, c, k)| Op::Damage(a, c, k)),
    ]
}

pub fn ops_strategy(max: usize) -> impl Strategy<Value = Vec<Op>> {
    prop::collection::vec(op_strategy(), 0..=max)
}

pub fn seq_strategy(t: Tier) -> impl Strategy<Value = SeqCase> {
    (16u8..=64, ops_strategy(t.pick(25, 40))).prop_map(|(chunk, ops)| SeqCase { chunk, ops })
}

struct Art {
    id: String,
    bytes: Vec<u8>,
    keys: Vec<String>,
    live: bool,
}

struct OpenW {
    w: BlobWriter,
    bytes: Vec<u8>,
    /// complete chunks handed to the store so far
    stored: usize,
    /// a collection ran while this writer held chunks that no finished artifact references
    tainted: Option<&'static str>,
}

/// One store plus its model. `real_clock`: gc_min_age = 0 and no simulated ageing (used by the
/// batched-sleep part, where `mark_all_aged` is called after a real sleep of more than a second).
pub struct Run {
    pub c: usize,
    real_clock: bool,
    pub blob: BlobStore,
    arts: Vec<Art>,
    writers: Vec<OpenW>,
    /// expected chunk records: key -> (reference count, old enough to be collected)
    chunks: BTreeMap<String, (i64, bool)>,
    pending_shared_delete: bool,
    /// a recorded known finding was hit: model and store may have diverged, the case ends here
    pub stopped: bool,
    /// signatures of known findings hit (for parts that aggregate their own statistics)
    pub known_sigs: Vec<String>,
    /// labels emitted (same purpose)
    pub marks: RefCell<BTreeSet<String>>,
}

macro_rules! bail {
    ($self:ident, $ctx:ident, $sig:expr, $($arg:tt)*) => {{
        let sig: String = $sig.into();
        $ctx.fail(sig.clone(), format!($($arg)*))?;
        $self.known_sigs.push(sig);
        $self.stopped = true;
        return Ok(());
    }};
}

impl Run {
    pub fn new(c: usize, real_clock: bool) -> Result<Self, Fail> {
        let cfg = BlobConfig::new()
            .with_chunk_size(c)
            .with_gc_batch_size(1_000_000)
            .with_gc_min_age(Duration::from_secs(if real_clock { 0 } else { SIM_MIN_AGE_SECS }));
        let blob = block_on(BlobStore::new(empty_store(!real_clock), cfg)).map_err(|e| Fail::new("harness", e.to_string()))?;
        Ok(Self {
            c,
            real_clock,
            blob,
            arts: Vec::new(),
            writers: Vec::new(),
            chunks: BTreeMap::new(),
            pending_shared_delete: false,
            stopped: false,
            known_sigs: Vec::new(),
            marks: RefCell::new(BTreeSet::new()),
        })
    }

    /// After a real sleep of > 1 s: everything stored so far was created in an earlier second.
    pub fn mark_all_aged(&mut self) {
        for v in self.chunks.values_mut() {
            v.1 = true;
        }
    }

    fn lab(&self, ctx: &mut CaseCtx, l: impl Into<String>) {
        let l = l.into();
        self.marks.borrow_mut().insert(l.clone());
        ctx.label(l);
    }

    fn model_store(&mut self, k: &str) {
        match self.chunks.get_mut(k) {
            Some(e) => e.0 += 1,
            None => {
                self.chunks.insert(k.to_string(), (1, false));
            },
        }
    }

    fn live_refs(&self) -> BTreeMap<String, i64> {
        let mut m = BTreeMap::new();
        for a in self.arts.iter().filter(|a| a.live) {
            for k in &a.keys {
                *m.entry(k.clone()).or_insert(0) += 1;
            }
        }
        m
    }

    /// References held by uploads that are still open: one per complete chunk already stored.
    /// They count like references of finished artifacts (a collection must leave them alone).
    fn writer_refs(&self) -> BTreeMap<String, i64> {
        let c = self.c;
        let mut m = BTreeMap::new();
        for w in &self.writers {
            for ci in 0..w.stored {
                *m.entry(chunk_key(&w.bytes[ci * c..(ci + 1) * c])).or_insert(0) += 1;
            }
        }
        m
    }

    fn all_refs(&self) -> BTreeMap<String, i64> {
        let mut m = self.live_refs();
        for (k, n) in self.writer_refs() {
            *m.entry(k).or_insert(0) += n;
        }
        m
    }

    pub fn step(&mut self, op: &Op, ctx: &mut CaseCtx) -> Result<(), Fail> {
        if self.stopped {
            return Ok(());
        }
        let kind = op.kind();
        let c = self.c;
        match op {
            Op::Put(d) => {
                let bytes = d.bytes(c);
                self.lab(ctx, format!("put {}", size_class(bytes.len(), c)));
                let r = block_on(self.blob.put("f.bin", &bytes, PutOptions::default()));
                if bytes.is_empty() {
                    // documented: empty data is rejected by put
                    if r.is_ok() {
                        bail!(self, ctx, "put-empty-accepted", "put of empty data returned Ok");
                    }
                } else {
                    let id = match r {
                        Ok(id) => id,
                        Err(e) => bail!(self, ctx, "put-error", "put of {} bytes failed: {e}", bytes.len()),
                    };
                    let keys = keys_of(&bytes, c);
                    self.note_new_artifact(&keys, ctx);
                    for k in &keys {
                        self.model_store(k);
                    }
                    self.arts.push(Art { id, bytes, keys, live: true });
                }
            },
            Op::Open => {
                if self.writers.len() >= 4 {
                    self.lab(ctx, "skipped op");
                    return Ok(());
                }
                let w = block_on(self.blob.writer("s.bin", PutOptions::default())).map_err(|e| Fail::new("writer-error", e.to_string()))?;
                self.writers.push(OpenW { w, bytes: Vec::new(), stored: 0, tainted: None });
            },
            Op::Write(wi, d, split) => {
                if self.writers.is_empty() {
                    // a write with no open writer opens one
                    self.step(&Op::Open, ctx)?;
                }
                let i = pick(*wi, self.writers.len());
                let part = d.bytes(c);
                let pieces: Vec<&[u8]> = if *split == 0 || part.is_empty() { vec![&part[..]] } else { part.chunks(*split as usize).collect() };
                for p in pieces {
                    if let Err(e) = block_on(self.writers[i].w.write(p)) {
                        bail!(self, ctx, "write-error", "streamed write of {} bytes failed: {e}", p.len());
                    }
                }
                self.writers[i].bytes.extend_from_slice(&part);
                let now_complete = self.writers[i].bytes.len() / c;
                for ci in self.writers[i].stored..now_complete {
                    let k = chunk_key(&self.writers[i].bytes[ci * c..(ci + 1) * c]);
                    self.model_store(&k);
                }
                self.writers[i].stored = now_complete;
                if self.writers[i].w.bytes_written() != self.writers[i].bytes.len() {
                    bail!(self, ctx, "bytes-written-wrong", "writer reports {} bytes written, {} were", self.writers[i].w.bytes_written(), self.writers[i].bytes.len());
                }
            },
            Op::Finish(wi) => {
                if self.writers.is_empty() {
                    self.lab(ctx, "skipped op");
                    return Ok(());
                }
                let i = pick(*wi, self.writers.len());
                let ow = self.writers.remove(i);
                let bytes = ow.bytes;
                self.lab(ctx, format!("streamed {}", size_class(bytes.len(), c)));
                if bytes.len() % c != 0 {
                    let k = chunk_key(&bytes[(bytes.len() / c) * c..]);
                    self.model_store(&k);
                }
                let id = match block_on(ow.w.finish()) {
                    Ok(id) => id,
                    Err(e) => bail!(self, ctx, "finish-error", "finish of a {}-byte stream failed: {e}", bytes.len()),
                };
                if let Some(by) = ow.tainted {
                    // legal sequence: writer open across a collection. The artifact must read back.
                    self.lab(ctx, format!("finished a writer that was open across a {by}"));
                    let got = block_on(self.blob.get(&id));
                    let sig = format!("open-writer-chunks-collected:{by}");
                    if got.as_ref().ok() != Some(&bytes) {
                        let shown = match &got {
                            Ok(b) => format!("{} bytes (expected {})", b.len(), bytes.len()),
                            Err(e) => format!("Err({e})"),
                        };
                        ctx.fail(
                            sig.clone(),
                            format!("a streaming writer had stored {} chunk(s) when {by} ran; {by} deleted them (no finished artifact referenced them yet); finish() then returned Ok but get() gives {shown}", ow.stored),
                        )?;
                        self.known_sigs.push(sig);
                        // reference counts no longer describe this artifact: downstream effects belong to the same cause
                        self.stopped = true;
                        return Ok(());
                    } else {
                        // readable, but are its chunks still counted?
                        let table = chunk_table(self.blob.store());
                        let mut truth = self.live_refs();
                        for k in keys_of(&bytes, c) {
                            *truth.entry(k).or_insert(0) += 1;
                        }
                        let low = truth.iter().find(|(k, t)| table.get(*k).map_or(true, |r| r.refs < **t));
                        if let Some((k, t)) = low {
                            ctx.fail(
                                sig.clone(),
                                format!("a streaming writer had stored {} chunk(s) when {by} ran; after finish() chunk {} has _refs = {:?} but {t} live references ({by} dropped the writer's reference)", ow.stored, short(k), table.get(k).map(|r| r.refs)),
                            )?;
                            self.known_sigs.push(sig);
                            self.stopped = true;
                            return Ok(());
                        }
                    }
                }
                let keys = keys_of(&bytes, c);
                self.note_new_artifact(&keys, ctx);
                self.arts.push(Art { id, bytes, keys, live: true });
            },
            Op::Stream(parts) => {
                if self.writers.len() >= 4 {
                    self.lab(ctx, "skipped op");
                    return Ok(());
                }
                self.step(&Op::Open, ctx)?;
                for (d, split) in parts {
                    self.step(&Op::Write(u16::MAX, d.clone(), *split), ctx)?;
                }
                return self.step(&Op::Finish(u16::MAX), ctx);
            },
            Op::Abandon(wi) => {
                if self.writers.is_empty() {
                    self.lab(ctx, "skipped op");
                    return Ok(());
                }
                let i = pick(*wi, self.writers.len());
                let ow = self.writers.remove(i);
                if ow.stored > 0 {
                    self.lab(ctx, "writer with stored chunks abandoned (references leak until full_gc/repair)");
                }
                drop(ow);
            },
            Op::Delete(ai) => {
                if self.arts.is_empty() {
                    self.lab(ctx, "skipped op");
                    return Ok(());
                }
                let i = pick(*ai, self.arts.len());
                let r = block_on(self.blob.delete(&self.arts[i].id));
                if self.arts[i].live {
                    if let Err(e) = r {
                        bail!(self, ctx, "delete-error", "delete of a live artifact failed: {e}");
                    }
                    self.arts[i].live = false;
                    let mine: BTreeSet<&String> = self.arts[i].keys.iter().collect();
                    let shared = self.arts.iter().enumerate().any(|(j, a)| j != i && a.live && a.keys.iter().any(|k| mine.contains(k)));
                    if shared {
                        self.pending_shared_delete = true;
                        self.lab(ctx, "delete of an artifact sharing a chunk with a live artifact");
                    }
                    let keys = self.arts[i].keys.clone();
                    for k in &keys {
                        if let Some(e) = self.chunks.get_mut(k) {
                            e.0 = (e.0 - 1).max(0);
                        }
                    }
                } else if r.is_ok() {
                    bail!(self, ctx, "delete-dead-ok", "delete of an already deleted artifact returned Ok");
                }
            },
            Op::Tick => {
                if self.real_clock {
                    self.lab(ctx, "skipped op");
                    return Ok(());
                }
                age_all(self.blob.store());
                self.mark_all_aged();
            },
            Op::Gc => {
                let _ = block_on(self.blob.gc());
                let must: Vec<String> = self.chunks.iter().filter(|(_, v)| v.0 == 0 && v.1).map(|(k, _)| k.clone()).collect();
                if !must.is_empty() {
                    self.lab(ctx, "gc had unreferenced old chunks to collect");
                }
                for k in &must {
                    self.chunks.remove(k);
                }
                if self.real_clock {
                    // unreferenced chunks created in the current wall-clock second may or may not go
                    let may: Vec<String> = self.chunks.iter().filter(|(_, v)| v.0 == 0).map(|(k, _)| k.clone()).collect();
                    for k in may {
                        if !self.blob.store().exists(&k) {
                            self.chunks.remove(&k);
                        }
                    }
                }
                if self.pending_shared_delete {
                    ctx.set_nontrivial();
                    self.lab(ctx, "shared-content delete followed by a collection");
                }
            },
            Op::FullGc => {
                let referenced: BTreeSet<String> = self.all_refs().into_keys().collect();
                let live_only = self.live_refs().len();
                if self.writers.iter().any(|w| w.stored > 0) {
                    ctx.set_nontrivial();
                    self.lab(ctx, "writer holding chunks open across full_gc");
                }
                for w in self.writers.iter_mut() {
                    if w.stored > 0 && w.tainted.is_none() {
                        w.tainted = Some("full_gc");
                    }
                }
                if let Err(e) = block_on(self.blob.full_gc()) {
                    bail!(self, ctx, "full_gc-error", "full_gc failed: {e}");
                }
                let before = self.chunks.len();
                self.chunks.retain(|k, _| referenced.contains(k));
                if self.chunks.len() < before {
                    self.lab(ctx, "full_gc had unreferenced chunks to collect");
                }
                if self.pending_shared_delete {
                    ctx.set_nontrivial();
                    self.lab(ctx, "shared-content delete followed by a collection");
                }
                let st = block_on(self.blob.stats()).map_err(|e| Fail::new("stats-error", e.to_string()))?;
                if st.chunk_count != referenced.len() {
                    if st.chunk_count == live_only && live_only < referenced.len() {
                        bail!(
                            self,
                            ctx,
                            "open-writer-chunks-collected:full_gc",
                            "full_gc left {} chunks = those of the finished artifacts; {} more are held by uploads in progress and were deleted",
                            st.chunk_count,
                            referenced.len() - live_only
                        );
                    }
                    bail!(self, ctx, "full_gc-count", "after full_gc stats().chunk_count = {} but live artifacts and open uploads reference {} distinct chunks", st.chunk_count, referenced.len());
                }
            },
            Op::Repair => {
                let truth = self.all_refs();
                if self.writers.iter().any(|w| w.stored > 0) {
                    ctx.set_nontrivial();
                    self.lab(ctx, "writer holding chunks open across repair");
                }
                for w in self.writers.iter_mut() {
                    if w.stored > 0 && w.tainted.is_none() {
                        w.tainted = Some("repair");
                    }
                }
                if let Err(e) = self.blob.repair() {
                    bail!(self, ctx, "repair-error", "repair failed: {e}");
                }
                let old = std::mem::take(&mut self.chunks);
                for (k, (_, aged)) in old {
                    if let Some(t) = truth.get(&k) {
                        self.chunks.insert(k, (*t, aged));
                    }
                }
            },
            Op::Verify(ai) => {
                if self.arts.is_empty() {
                    self.lab(ctx, "skipped op");
                    return Ok(());
                }
                let a = &self.arts[pick(*ai, self.arts.len())];
                let r = self.blob.verify(&a.id);
                if a.live {
                    match r {
                        Ok(true) => {},
                        Ok(false) => bail!(self, ctx, "verify-false:verify", "verify() = false on an undamaged artifact of {} bytes", a.bytes.len()),
                        Err(e) => bail!(self, ctx, "verify-error:verify", "verify() failed on an undamaged artifact: {e}"),
                    }
                } else if r.is_ok() {
                    bail!(self, ctx, "verify-dead-ok", "verify() of a deleted artifact returned Ok");
                }
            },
            Op::Get(ai) => {
                if self.arts.is_empty() {
                    self.lab(ctx, "skipped op");
                    return Ok(());
                }
                let a = &self.arts[pick(*ai, self.arts.len())];
                let r = block_on(self.blob.get(&a.id));
                if a.live {
                    match r {
                        Ok(b) if b == a.bytes => {},
                        Ok(b) => bail!(self, ctx, "get-mismatch:get", "get() returned {} bytes differing from the {} stored", b.len(), a.bytes.len()),
                        Err(e) => bail!(self, ctx, "get-error:get", "get() of a live artifact failed: {e}"),
                    }
                    let m = match block_on(self.blob.metadata(&a.id)) {
                        Ok(m) => m,
                        Err(e) => bail!(self, ctx, "metadata-error", "metadata() of a live artifact failed: {e}"),
                    };
                    if m.size != a.bytes.len() || m.chunk_count != a.keys.len() || m.chunk_size != c || m.checksum != sha_hex(&a.bytes) {
                        bail!(self, ctx, "metadata-wrong", "metadata size/chunk_count/chunk_size/checksum = {}/{}/{}/{} for {} bytes in {} chunks of {c} (sha {})", m.size, m.chunk_count, m.chunk_size, m.checksum, a.bytes.len(), a.keys.len(), sha_hex(&a.bytes));
                    }
                } else if r.is_ok() {
                    bail!(self, ctx, "get-dead-ok", "get() of a deleted artifact returned Ok");
                }
            },
            Op::Read(ai, buf) => {
                if self.arts.is_empty() {
                    self.lab(ctx, "skipped op");
                    return Ok(());
                }
                let a = &self.arts[pick(*ai, self.arts.len())];
                let r = block_on(self.blob.reader(&a.id));
                if a.live {
                    let mut rd = match r {
                        Ok(r) => r,
                        Err(e) => bail!(self, ctx, "reader-error", "reader() of a live artifact failed: {e}"),
                    };
                    if rd.total_size() != a.bytes.len() || rd.chunk_count() != a.keys.len() {
                        bail!(self, ctx, "reader-size-wrong", "reader reports {} bytes / {} chunks, stored {} / {}", rd.total_size(), rd.chunk_count(), a.bytes.len(), a.keys.len());
                    }
                    let mut b = vec![0u8; (*buf).max(1) as usize];
                    let mut got = Vec::new();
                    // how the bytes are pulled: read() to the end; a few read()s and then read_all()
                    // for "all remaining data"; read_all() alone; chunk by chunk; read() and next_chunk() in turn
                    let mode = (ai >> 3) % 5;
                    let mut reads_left = match mode {
                        1 => 1 + (ai >> 5) as usize % 3,
                        _ => usize::MAX,
                    };
                    if mode <= 1 {
                        loop {
                            if reads_left == 0 {
                                break;
                            }
                            reads_left -= 1;
                            match block_on(rd.read(&mut b)) {
                                Ok(0) => break,
                                Ok(n) => got.extend_from_slice(&b[..n]),
                                Err(e) => bail!(self, ctx, "read-error", "streamed read failed after {} bytes: {e}", got.len()),
                            }
                            if got.len() > a.bytes.len() + 4096 {
                                break;
                            }
                        }
                    }
                    if mode == 1 || mode == 2 {
                        match block_on(rd.read_all()) {
                            Ok(rest) => got.extend_from_slice(&rest),
                            Err(e) => bail!(self, ctx, "read-error", "read_all failed after {} bytes: {e}", got.len()),
                        }
                        self.lab(ctx, if mode == 1 { "streamed read: read() calls, then read_all()" } else { "streamed read: read_all()" });
                    }
                    if mode == 3 {
                        loop {
                            match block_on(rd.next_chunk()) {
                                Ok(Some(c)) => got.extend_from_slice(&c),
                                Ok(None) => break,
                                Err(e) => bail!(self, ctx, "read-error", "next_chunk failed after {} bytes: {e}", got.len()),
                            }
                        }
                        self.lab(ctx, "streamed read: chunk by chunk");
                    }
                    if mode == 4 {
                        // one cursor, two ways of advancing it: a generated pattern of read() and
                        // next_chunk() calls until both report the end
                        // (bit 10: a read(), bit 9: a next_chunk() — both kinds occur in every pattern, so both ends are seen)
                        let pat = ((ai >> 6) as usize | 0x400) & !0x200;
                        let (mut i, mut ended) = (0usize, 0u8);
                        while ended != 3 && got.len() <= a.bytes.len() + 4096 {
                            if (pat >> (i % 11)) & 1 == 1 {
                                match block_on(rd.read(&mut b)) {
                                    Ok(0) => ended |= 1,
                                    Ok(n) => {
                                        got.extend_from_slice(&b[..n]);
                                        ended = 0;
                                    },
                                    Err(e) => bail!(self, ctx, "read-error", "streamed read failed after {} bytes: {e}", got.len()),
                                }
                            } else {
                                match block_on(rd.next_chunk()) {
                                    Ok(Some(c)) => {
                                        got.extend_from_slice(&c);
                                        ended = 0;
                                    },
                                    Ok(None) => ended |= 2,
                                    Err(e) => bail!(self, ctx, "read-error", "next_chunk failed after {} bytes: {e}", got.len()),
                                }
                            }
                            i += 1;
                        }
                        self.lab(ctx, "streamed read: read() and next_chunk() in turn");
                    }
                    if got != a.bytes {
                        bail!(self, ctx, if mode == 4 { "read-mismatch:read-and-next_chunk" } else if mode == 1 { "read-mismatch:read-then-read_all" } else { "read-mismatch" }, "streamed read (mode {mode}, buffer {}) returned {} bytes, stored {} (first difference at {:?})", b.len(), got.len(), a.bytes.len(), got.iter().zip(a.bytes.iter()).position(|(x, y)| x != y));
                    }
                    match block_on(rd.verify()) {
                        Ok(true) => {},
                        other => bail!(self, ctx, "reader-verify-false", "BlobReader::verify on an undamaged artifact = {other:?}"),
                    }
                    self.lab(ctx, "streamed read");
                } else if r.is_ok() {
                    bail!(self, ctx, "reader-dead-ok", "reader() of a deleted artifact returned Ok");
                }
            },
            Op::Exists(ai) => {
                if self.arts.is_empty() {
                    self.lab(ctx, "skipped op");
                    return Ok(());
                }
                let a = &self.arts[pick(*ai, self.arts.len())];
                let e = block_on(self.blob.exists(&a.id)).unwrap_or(!a.live);
                if e != a.live {
                    bail!(self, ctx, "exists-wrong:exists", "exists() = {e} for an artifact that is {}", if a.live { "live" } else { "deleted" });
                }
            },
            Op::Damage(ai, ci, dmg) => {
                let live: Vec<usize> = (0..self.arts.len()).filter(|i| self.arts[*i].live && !self.arts[*i].keys.is_empty()).collect();
                if live.is_empty() {
                    self.lab(ctx, "skipped op");
                    return Ok(());
                }
                let a = live[pick(*ai, live.len())];
                let key = self.arts[a].keys[pick(*ci, self.arts[a].keys.len())].clone();
                let store = self.blob.store().clone();
                let saved = store.get(&key).map_err(|e| Fail::new(format!("live-chunk-lost:{kind}"), format!("chunk {} of a live artifact is not stored: {e}", short(&key))))?;
                let dname = match dmg {
                    Dmg::Flip(pos) => {
                        let mut t = saved.clone();
                        if let Some(TensorValue::Scalar(ScalarValue::Bytes(b))) = saved.get("_data") {
                            let mut b = b.clone();
                            let p = pick(*pos, b.len().max(1)).min(b.len().saturating_sub(1));
                            b[p] ^= 1 << (*pos % 8);
                            t.set("_data", TensorValue::Scalar(ScalarValue::Bytes(b)));
                        }
                        let _ = store.put(&key, t);
                        "flip"
                    },
                    Dmg::Truncate => {
                        let mut t = saved.clone();
                        if let Some(TensorValue::Scalar(ScalarValue::Bytes(b))) = saved.get("_data") {
                            let mut b = b.clone();
                            b.pop();
                            t.set("_data", TensorValue::Scalar(ScalarValue::Bytes(b)));
                        }
                        let _ = store.put(&key, t);
                        "truncate"
                    },
                    Dmg::Remove => {
                        let _ = store.delete(&key);
                        "remove"
                    },
                };
                self.lab(ctx, format!("damage: {dname}"));
                let mut fail: Option<(String, String)> = None;
                for b in self.arts.iter().filter(|b| b.live) {
                    let hit = b.keys.contains(&key);
                    let v = self.blob.verify(&b.id);
                    if hit {
                        if let Ok(true) = v {
                            fail = Some((format!("verify-missed:{dname}"), format!("verify() = true although a chunk of the artifact ({} bytes, {} chunks) was damaged ({dname})", b.bytes.len(), b.keys.len())));
                            break;
                        }
                        if dname == "remove" && block_on(self.blob.get(&b.id)).is_ok() {
                            fail = Some(("get-ok-with-missing-chunk".into(), "get() returned Ok although a chunk record of the artifact is missing".into()));
                            break;
                        }
                    } else {
                        if !matches!(v, Ok(true)) {
                            fail = Some((format!("verify-false-on-undamaged:{dname}"), format!("verify() = {v:?} on an artifact that does not contain the damaged chunk")));
                            break;
                        }
                        self.lab(ctx, "verify true on an undamaged neighbour of a damaged artifact");
                    }
                }
                let _ = store.put(&key, saved);
                if let Some((sig, msg)) = fail {
                    bail!(self, ctx, sig, "{msg}");
                }
                let id = self.arts[a].id.clone();
                if !matches!(self.blob.verify(&id), Ok(true)) {
                    bail!(self, ctx, "verify-false:restored", "verify() is not true after the damaged chunk record was restored exactly");
                }
            },
        }
        self.check_table(kind, ctx)?;
        if self.stopped {
            return Ok(());
        }
        if matches!(op, Op::Put(_) | Op::Finish(_) | Op::Delete(_) | Op::Gc | Op::FullGc | Op::Repair) {
            self.readback(kind, ctx)?;
        }
        Ok(())
    }

    fn note_new_artifact(&mut self, keys: &[String], ctx: &mut CaseCtx) {
        let distinct: BTreeSet<&String> = keys.iter().collect();
        if distinct.len() < keys.len() {
            ctx.set_nontrivial();
            self.lab(ctx, "artifact with a repeated chunk");
        }
        let live = self.live_refs();
        if keys.iter().any(|k| live.contains_key(k)) {
            self.lab(ctx, "artifact shares a chunk with a live artifact");
        }
    }

    /// Stored chunk records == expected chunk records (existence and reference count).
    fn check_table(&mut self, kind: &str, ctx: &mut CaseCtx) -> Result<(), Fail> {
        let table = chunk_table(self.blob.store());
        let live = self.live_refs();
        for (k, (refs, aged)) in &self.chunks {
            match table.get(k) {
                None => {
                    let class = if live.contains_key(k) {
                        "live-chunk-lost"
                    } else if *refs > 0 {
                        "held-chunk-lost"
                    } else {
                        "young-orphan-collected"
                    };
                    bail!(self, ctx, format!("{class}:{kind}"), "after {kind}: chunk {} (expected refs {refs}, old={aged}, referenced by {} live artifact occurrence(s)) is no longer stored", short(k), live.get(k).copied().unwrap_or(0));
                },
                Some(rec) => {
                    if rec.refs < *refs {
                        bail!(self, ctx, format!("refs-low:{kind}"), "after {kind}: chunk {} has _refs = {} but {} references exist ({} from live artifacts)", short(k), rec.refs, refs, live.get(k).copied().unwrap_or(0));
                    }
                    if rec.refs > *refs {
                        bail!(self, ctx, format!("refs-high:{kind}"), "after {kind}: chunk {} has _refs = {} but only {} references exist", short(k), rec.refs, refs);
                    }
                },
            }
        }
        for (k, rec) in &table {
            if !self.chunks.contains_key(k) {
                bail!(self, ctx, format!("chunk-kept:{kind}"), "after {kind}: chunk {} (_refs = {}, {:?} bytes) is stored but should have been collected / never stored", short(k), rec.refs, rec.data_len);
            }
        }
        Ok(())
    }

    /// Every live artifact reads back exactly and verifies; deleted ones are gone.
    pub fn readback(&mut self, kind: &str, ctx: &mut CaseCtx) -> Result<(), Fail> {
        for i in 0..self.arts.len() {
            let a = &self.arts[i];
            let e = block_on(self.blob.exists(&a.id)).unwrap_or(!a.live);
            if e != a.live {
                bail!(self, ctx, format!("exists-wrong:{kind}"), "after {kind}: exists() = {e} for an artifact that is {}", if a.live { "live" } else { "deleted" });
            }
            if !a.live {
                continue;
            }
            match block_on(self.blob.get(&a.id)) {
                Ok(b) if b == a.bytes => {},
                Ok(b) => bail!(self, ctx, format!("get-mismatch:{kind}"), "after {kind}: get() of a live artifact returned {} bytes differing from the {} stored", b.len(), a.bytes.len()),
                Err(e) => bail!(self, ctx, format!("get-error:{kind}"), "after {kind}: get() of a live artifact ({} bytes) failed: {e}", a.bytes.len()),
            }
            match self.blob.verify(&a.id) {
                Ok(true) => {},
                other => bail!(self, ctx, format!("verify-false:{kind}"), "after {kind}: verify() of an undamaged live artifact = {other:?}"),
            }
        }
        Ok(())
    }

    /// End of a case: statistics agree with the model; after deleting everything a full
    /// collection leaves no chunk.
    pub fn finish_case(&mut self, ctx: &mut CaseCtx) -> Result<(), Fail> {
        if self.stopped {
            return Ok(());
        }
        self.readback("end", ctx)?;
        if self.stopped {
            return Ok(());
        }
        let st = block_on(self.blob.stats()).map_err(|e| Fail::new("stats-error", e.to_string()))?;
        let live = self.arts.iter().filter(|a| a.live).count();
        let total: usize = self.arts.iter().filter(|a| a.live).map(|a| a.bytes.len()).sum();
        let orphans = self.chunks.values().filter(|v| v.0 == 0).count();
        if st.artifact_count != live || st.chunk_count != self.chunks.len() || st.total_bytes != total || st.orphaned_chunks != orphans {
            bail!(self, ctx, "stats-wrong", "stats() = {st:?}; expected {live} artifacts, {} chunks, {total} bytes, {orphans} orphaned", self.chunks.len());
        }
        for i in 0..self.arts.len() {
            if self.arts[i].live {
                if let Err(e) = block_on(self.blob.delete(&self.arts[i].id)) {
                    bail!(self, ctx, "delete-error", "delete of a live artifact failed: {e}");
                }
                self.arts[i].live = false;
            }
        }
        self.writers.clear();
        if let Err(e) = block_on(self.blob.full_gc()) {
            bail!(self, ctx, "full_gc-error", "full_gc failed: {e}");
        }
        let st = block_on(self.blob.stats()).map_err(|e| Fail::new("stats-error", e.to_string()))?;
        if st.chunk_count != 0 || st.artifact_count != 0 {
            bail!(self, ctx, "full_gc-leftover", "all artifacts deleted, full_gc run: stats() still reports {} chunks / {} artifacts", st.chunk_count, st.artifact_count);
        }
        Ok(())
    }
}

pub fn seq_check(case: &SeqCase, ctx: &mut CaseCtx) -> Result<(), Fail> {
    let mut run = Run::new(case.chunk as usize, false)?;
    for op in &case.ops {
        run.step(op, ctx)?;
    }
    run.finish_case(ctx)
}
