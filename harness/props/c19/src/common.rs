//! Shared pieces: the block pool the data is built from, a tiny executor for the async API, and
//! the harness's own (independent) view of the records the blob store keeps in the TensorStore.

use serde::{Deserialize, Serialize};
use sha2::{Digest, Sha256};
use std::collections::BTreeMap;
use std::future::Future;
use std::task::{Context, Poll, Waker};
use tensor_store::{ScalarValue, TensorStore, TensorValue};

/// Simulated seconds by which `age_all` moves every chunk into the past. The simulated-clock parts
/// configure `gc_min_age` = 3600 s, so a chunk is collectible iff it was aged (wall clock irrelevant).
pub const AGE_SECS: i64 = 7200;
pub const SIM_MIN_AGE_SECS: u64 = 3600;

/// The blob API is `async` but never awaits anything that can be pending (no timer, no IO, no
/// channel receive outside the background task, which is never started). Poll with a no-op waker.
pub fn block_on<F: Future>(f: F) -> F::Output {
    let mut f = std::pin::pin!(f);
    let mut cx = Context::from_waker(Waker::noop());
    for _ in 0..10_000_000u32 {
        if let Poll::Ready(v) = f.as_mut().poll(&mut cx) {
            return v;
        }
        std::thread::yield_now();
    }
    panic!("blob API future stayed pending without a runtime driver");
}

/// Block `id` of the pool: the same bytes for every chunk size (a shorter block is a prefix).
pub fn block(id: u8, len: usize) -> Vec<u8> {
    (0..len).map(|j| (nv_engine::mix((u64::from(id) << 32) | j as u64) >> 24) as u8).collect()
}

#[derive(Clone, Debug, Serialize, Deserialize, PartialEq, Eq)]
pub enum Tail {
    None,
    /// one byte (first byte of the block)
    One(u8),
    /// chunk size - 1 bytes of the block
    AllButOne(u8),
    /// (block, length mod chunk size)
    Part(u8, u8),
}

/// Content description: `head` bytes of a private block (shifts the chunk grid), whole pool
/// blocks, a tail shorter than a chunk. Identical blocks give identical chunks across and within
/// artifacts as long as `head` is 0.
#[derive(Clone, Debug, Serialize, Deserialize, PartialEq, Eq)]
pub struct Data {
    pub head: u8,
    pub blocks: Vec<u8>,
    pub tail: Tail,
}

impl Data {
    pub fn bytes(&self, c: usize) -> Vec<u8> {
        let mut out = Vec::new();
        let h = self.head as usize % c;
        out.extend_from_slice(&block(200, h));
        for b in &self.blocks {
            out.extend_from_slice(&block(*b, c));
        }
        match self.tail {
            Tail::None => {},
            Tail::One(b) => out.extend_from_slice(&block(b, 1)),
            Tail::AllButOne(b) => out.extend_from_slice(&block(b, c - 1)),
            Tail::Part(b, l) => out.extend_from_slice(&block(b, l as usize % c)),
        }
        out
    }
}

pub fn size_class(len: usize, c: usize) -> &'static str {
    if len == 0 {
        "size 0"
    } else if len == 1 {
        "size 1"
    } else if len == c - 1 {
        "size c-1"
    } else if len == c {
        "size c"
    } else if len == c + 1 {
        "size c+1"
    } else if len % c == 0 {
        "size k*c (k>=2)"
    } else if len < c {
        "size <c other"
    } else {
        "size >c other"
    }
}

pub fn sha_hex(b: &[u8]) -> String {
    let mut h = Sha256::new();
    h.update(b);
    let d = h.finalize();
    let mut s = String::with_capacity(7 + 64);
    s.push_str("sha256:");
    for byte in d.iter() {
        s.push(char::from_digit(u32::from(byte >> 4), 16).unwrap());
        s.push(char::from_digit(u32::from(byte & 15), 16).unwrap());
    }
    s
}

/// Key under which the content-addressed store keeps a chunk with these bytes (computed by the
/// harness with its own hasher: "identical content is stored once" is checked against it).
pub fn chunk_key(b: &[u8]) -> String {
    format!("_blob:chunk:{}", sha_hex(b))
}

pub fn keys_of(bytes: &[u8], c: usize) -> Vec<String> {
    bytes.chunks(c).map(chunk_key).collect()
}

pub fn short(k: &str) -> String {
    k.rsplit(':').next().map(|h| h.chars().take(8).collect()).unwrap_or_default()
}

#[derive(Clone, Debug)]
pub struct Rec {
    pub refs: i64,
    pub data_len: Option<usize>,
}

fn int_of(t: &tensor_store::TensorData, f: &str) -> Option<i64> {
    match t.get(f) {
        Some(TensorValue::Scalar(ScalarValue::Int(i))) => Some(*i),
        _ => None,
    }
}

/// All chunk records currently stored, read straight from the TensorStore.
pub fn chunk_table(store: &TensorStore) -> BTreeMap<String, Rec> {
    let mut out = BTreeMap::new();
    for k in store.scan("_blob:chunk:") {
        if let Ok(t) = store.get(&k) {
            let data_len = match t.get("_data") {
                Some(TensorValue::Scalar(ScalarValue::Bytes(b))) => Some(b.len()),
                _ => None,
            };
            out.insert(k, Rec { refs: int_of(&t, "_refs").unwrap_or(-999), data_len });
        }
    }
    out
}

/// The ordered chunk list recorded in an artifact's metadata.
pub fn meta_chunks(store: &TensorStore, id: &str) -> Option<Vec<String>> {
    let t = store.get(&format!("_blob:meta:{id}")).ok()?;
    match t.get("_chunks") {
        Some(TensorValue::Pointers(p)) => Some(p.clone()),
        _ => None,
    }
}

/// "AGE_SECS seconds pass": every stored chunk's creation time moves into the past. `_created`
/// is read only by the age test of the incremental collector, so the resulting state is the one a
/// real wait of that length produces.
pub fn age_all(store: &TensorStore) {
    for k in store.scan("_blob:chunk:") {
        if let Ok(mut t) = store.get(&k) {
            let created = int_of(&t, "_created").unwrap_or(0);
            t.set("_created", TensorValue::Scalar(ScalarValue::Int(created - AGE_SECS)));
            let _ = store.put(&k, t);
        }
    }
}

thread_local! {
    static POOLED: std::cell::RefCell<Option<TensorStore>> = const { std::cell::RefCell::new(None) };
}

/// An empty TensorStore. Constructing one costs ~1 ms (slab pre-allocation), so the sequential and
/// scheduled parts reuse one store per shard thread: `clear()` it and make sure it is empty; a
/// store that is not empty after `clear()` is replaced by a fresh one.
pub fn empty_store(reuse: bool) -> TensorStore {
    if !reuse {
        return TensorStore::new();
    }
    POOLED.with(|p| {
        let mut p = p.borrow_mut();
        if let Some(s) = p.as_ref() {
            s.clear();
            if s.len() == 0 && s.scan("").is_empty() {
                return s.clone();
            }
        }
        let s = TensorStore::new();
        *p = Some(s.clone());
        s
    })
}
