//! Concurrent writers, deleters and collectors of overlapping content under the deterministic
//! scheduler (yield points `blob.chunk.rmw`, `blob.refs.rmw` and operation boundaries), plus a
//! real-thread stress pass.

use crate::common::*;
use nv_engine::{pick, sched, CaseCtx, CustomPart, Fail, Tier, Violation};
use proptest::prelude::*;
use serde::{Deserialize, Serialize};
use std::collections::{BTreeMap, BTreeSet};
use std::sync::atomic::{AtomicU64, Ordering};
use std::sync::{Arc, Mutex};
use std::time::Duration;
use tensor_blob::{BlobConfig, BlobStore, PutOptions};

#[derive(Clone, Debug, Serialize, Deserialize)]
pub enum SetupOp {
    Put(Data),
    /// put then delete: leaves unreferenced chunks behind
    Orphan(Data),
    /// simulated time passes
    Tick,
}

#[derive(Clone, Debug, Serialize, Deserialize)]
pub enum TOp {
    Put(Data),
    /// open, one write per part with an operation boundary after each, finish
    Stream(Vec<Data>),
    /// delete one of the artifacts this thread may delete (its share of the setup artifacts and
    /// the ones it created)
    Delete(u16),
    /// delete one of the SETUP artifacts whichever thread it was dealt to: two threads may delete
    /// the same artifact at once; exactly one of them may win, the other must get NotFound
    DeleteAny(u16),
    /// incremental collection; `true`: simulated time passes first
    Gc(bool),
    FullGc,
    /// recount of every chunk from the finished artifacts + removal of unreferenced chunks
    Repair,
}

#[derive(Clone, Debug, Serialize, Deserialize)]
pub struct SchedCase {
    pub chunk: u8,
    pub setup: Vec<SetupOp>,
    pub scripts: Vec<Vec<TOp>>,
    pub schedule: Vec<u16>,
    /// which of the surviving artifacts the harness deletes after quiescence (cyclic mask)
    pub post: Vec<bool>,
}

pub fn sched_strategy(t: Tier) -> impl Strategy<Value = SchedCase> {
    let d = || crate::seq::data_strategy(3, 3, true);
    let setup = prop_oneof![3 => d().prop_map(SetupOp::Put), 2 => d().prop_map(SetupOp::Orphan), 2 => Just(SetupOp::Tick)];
    let top = prop_oneof![
        5 => d().prop_map(TOp::Put),
        2 => prop::collection::vec(d(), 1..=3).prop_map(TOp::Stream),
        4 => any::<u16>().prop_map(TOp::Delete),
        2 => any::<u16>().prop_map(TOp::DeleteAny),
        2 => any::<bool>().prop_map(TOp::Gc),
        1 => Just(TOp::FullGc),
        1 => Just(TOp::Repair),
    ];
    let max_threads = t.pick(4usize, 4usize);
    let max_ops = t.pick(3usize, 5usize);
    (
        16u8..=32,
        prop::collection::vec(setup, 0..=5),
        prop::collection::vec(prop::collection::vec(top, 1..=max_ops), 2..=max_threads),
        prop::collection::vec(any::<u16>(), 0..120),
        prop::collection::vec(any::<bool>(), 1..=4),
    )
        .prop_map(|(chunk, setup, scripts, schedule, post)| SchedCase { chunk, setup, scripts, schedule, post })
}

#[derive(Clone, Copy, PartialEq, Eq, Debug)]
enum K {
    W,
    D,
    Gc,
    FullGc,
    Repair,
}

#[derive(Clone, Debug)]
struct OpRec {
    kind: K,
    start: u64,
    end: u64,
    /// chunk keys the operation touches (writer: its content; delete: the artifact's chunks)
    keys: Vec<String>,
    /// registry index of the artifact created / deleted
    art: Option<usize>,
    err: Option<String>,
    /// a DeleteAny that was told the artifact does not exist (another delete must have won)
    not_found: bool,
}

impl OpRec {
    fn overlaps(&self, o: &OpRec) -> bool {
        self.start < o.end && o.start < self.end
    }
}

#[derive(Clone, Debug)]
struct ArtRec {
    id: String,
    bytes: Vec<u8>,
    keys: Vec<String>,
    deleted: bool,
    /// scripted deletes of it that returned Ok
    delete_oks: u32,
    /// thread allowed to delete it
    owner: usize,
    /// (thread, op index) of the operation that wrote it; None for setup artifacts
    writer: Option<(usize, usize)>,
}

fn new_store(c: usize, reuse: bool) -> Result<BlobStore, Fail> {
    let cfg = BlobConfig::new().with_chunk_size(c).with_gc_batch_size(1_000_000).with_gc_min_age(Duration::from_secs(SIM_MIN_AGE_SECS));
    block_on(BlobStore::new(empty_store(reuse), cfg)).map_err(|e| Fail::new("harness", e.to_string()))
}

pub fn sched_check(case: &SchedCase, ctx: &mut CaseCtx) -> Result<(), Fail> {
    let c = case.chunk as usize;
    let n = case.scripts.len();
    let blob = Arc::new(new_store(c, true)?);
    let registry: Arc<Mutex<Vec<ArtRec>>> = Arc::new(Mutex::new(Vec::new()));
    let mut preexisting: BTreeSet<String> = BTreeSet::new();
    // ---- setup (sequential)
    for op in &case.setup {
        match op {
            SetupOp::Put(d) | SetupOp::Orphan(d) => {
                let bytes = d.bytes(c);
                if bytes.is_empty() {
                    continue;
                }
                let id = block_on(blob.put("setup.bin", &bytes, PutOptions::default())).map_err(|e| Fail::new("harness", e.to_string()))?;
                let keys = keys_of(&bytes, c);
                preexisting.extend(keys.iter().cloned());
                if matches!(op, SetupOp::Orphan(_)) {
                    block_on(blob.delete(&id)).map_err(|e| Fail::new("harness", e.to_string()))?;
                } else {
                    let mut r = registry.lock().unwrap();
                    let owner = r.len() % n;
                    r.push(ArtRec { id, bytes, keys, deleted: false, delete_oks: 0, owner, writer: None });
                }
            },
            SetupOp::Tick => age_all(blob.store()),
        }
    }
    // ---- scripts
    let seq = Arc::new(AtomicU64::new(1));
    let logs: Vec<Arc<Mutex<Vec<OpRec>>>> = (0..n).map(|_| Arc::new(Mutex::new(Vec::new()))).collect();
    let mut scripts: Vec<Box<dyn FnOnce() + Send>> = Vec::new();
    for (ti, script) in case.scripts.iter().enumerate() {
        let (blob, registry, seq, log, script) = (blob.clone(), registry.clone(), seq.clone(), logs[ti].clone(), script.clone());
        scripts.push(Box::new(move || {
            let mut attempted: BTreeSet<usize> = BTreeSet::new();
            for op in script {
                sched::op_boundary();
                let start = seq.fetch_add(1, Ordering::SeqCst);
                let opidx = log.lock().unwrap().len();
                let mut rec = OpRec { kind: K::W, start, end: 0, keys: Vec::new(), art: None, err: None, not_found: false };
                match op {
                    TOp::Put(d) => {
                        let bytes = d.bytes(c);
                        if bytes.is_empty() {
                            continue;
                        }
                        rec.keys = keys_of(&bytes, c);
                        match block_on(blob.put("t.bin", &bytes, PutOptions::default())) {
                            Ok(id) => {
                                let mut r = registry.lock().unwrap();
                                rec.art = Some(r.len());
                                r.push(ArtRec { id, bytes, keys: rec.keys.clone(), deleted: false, delete_oks: 0, owner: ti, writer: Some((ti, opidx)) });
                            },
                            Err(e) => rec.err = Some(e.to_string()),
                        }
                    },
                    TOp::Stream(parts) => {
                        let mut bytes = Vec::new();
                        for p in &parts {
                            bytes.extend_from_slice(&p.bytes(c));
                        }
                        rec.keys = keys_of(&bytes, c);
                        match block_on(blob.writer("t.bin", PutOptions::default())) {
                            Ok(mut w) => {
                                for p in &parts {
                                    if let Err(e) = block_on(w.write(&p.bytes(c))) {
                                        rec.err = Some(e.to_string());
                                    }
                                    sched::op_boundary();
                                }
                                match block_on(w.finish()) {
                                    Ok(id) => {
                                        let mut r = registry.lock().unwrap();
                                        rec.art = Some(r.len());
                                        r.push(ArtRec { id, bytes, keys: rec.keys.clone(), deleted: false, delete_oks: 0, owner: ti, writer: Some((ti, opidx)) });
                                    },
                                    Err(e) => rec.err = Some(e.to_string()),
                                }
                            },
                            Err(e) => rec.err = Some(e.to_string()),
                        }
                    },
                    TOp::Delete(i) => {
                        rec.kind = K::D;
                        let target = {
                            let r = registry.lock().unwrap();
                            let cands: Vec<usize> = (0..r.len()).filter(|j| r[*j].owner == ti && !attempted.contains(j)).collect();
                            if cands.is_empty() {
                                None
                            } else {
                                let j = cands[pick(i, cands.len())];
                                Some((j, r[j].id.clone(), r[j].keys.clone()))
                            }
                        };
                        let Some((j, id, keys)) = target else { continue };
                        attempted.insert(j);
                        rec.keys = keys;
                        rec.art = Some(j);
                        match block_on(blob.delete(&id)) {
                            Ok(()) => {
                                let mut r = registry.lock().unwrap();
                                r[j].deleted = true;
                                r[j].delete_oks += 1;
                            },
                            // only another thread's DeleteAny of the same setup artifact explains this
                            Err(tensor_blob::BlobError::NotFound(_)) => rec.not_found = true,
                            Err(e) => rec.err = Some(e.to_string()),
                        }
                    },
                    TOp::DeleteAny(i) => {
                        rec.kind = K::D;
                        let target = {
                            let r = registry.lock().unwrap();
                            let cands: Vec<usize> = (0..r.len()).filter(|j| r[*j].writer.is_none() && !attempted.contains(j)).collect();
                            if cands.is_empty() {
                                None
                            } else {
                                let j = cands[pick(i, cands.len())];
                                Some((j, r[j].id.clone(), r[j].keys.clone()))
                            }
                        };
                        let Some((j, id, keys)) = target else { continue };
                        attempted.insert(j);
                        rec.keys = keys;
                        rec.art = Some(j);
                        match block_on(blob.delete(&id)) {
                            Ok(()) => {
                                let mut r = registry.lock().unwrap();
                                r[j].deleted = true;
                                r[j].delete_oks += 1;
                            },
                            Err(tensor_blob::BlobError::NotFound(_)) => rec.not_found = true,
                            Err(e) => rec.err = Some(e.to_string()),
                        }
                    },
                    TOp::Gc(age) => {
                        rec.kind = K::Gc;
                        if age {
                            age_all(blob.store());
                        }
                        let _ = block_on(blob.gc());
                    },
                    TOp::FullGc => {
                        rec.kind = K::FullGc;
                        if let Err(e) = block_on(blob.full_gc()) {
                            rec.err = Some(e.to_string());
                        }
                    },
                    TOp::Repair => {
                        // same class as full_gc for the overlap bookkeeping: a recount from the
                        // artifact list that removes what nothing references
                        rec.kind = K::Repair;
                        if let Err(e) = blob.repair() {
                            rec.err = Some(e.to_string());
                        }
                    },
                }
                rec.end = seq.fetch_add(1, Ordering::SeqCst);
                log.lock().unwrap().push(rec);
            }
        }));
    }
    let report = sched::run(scripts, &case.schedule, &["blob.chunk.rmw", "blob.refs.rmw", "blob.repair.counted"], Duration::from_millis(40));
    if let Some((t, msg)) = report.panics.first() {
        ctx.fail("conc-panic-in-thread", format!("thread {t} panicked: {msg}"))?;
    }
    let ov_chunk = report.overlaps("blob.chunk.rmw");
    let ov_refs = report.overlaps("blob.refs.rmw");
    if ov_chunk > 0 {
        ctx.label("two threads between the exists check and the put/increment of store_chunk");
    }
    if ov_refs > 0 {
        ctx.label("two threads between read and write-back of a reference count");
    }
    if ov_chunk + ov_refs > 0 {
        ctx.set_nontrivial();
    }
    if report.blocked_events > 0 {
        ctx.label("scheduler: granted thread blocked on a product lock");
        let ages_in_script = case.scripts.iter().flatten().any(|o| matches!(o, TOp::Gc(true)));
        if ages_in_script {
            // The fallback lets two threads run at once. The product holds no lock across the hooked
            // windows, so this only happens when the machine is overloaded; the harness's own
            // read-modify-write of `_created` (simulated ageing inside a script) could then race with
            // a product update, which would be the harness's fault. Such a case decides nothing.
            ctx.label("inconclusive: scheduler fallback in a case with simulated ageing inside a script (checks skipped)");
            return Ok(());
        }
    }
    ctx.note = Some(serde_json::json!({"yields": report.trace.len(), "overlaps_chunk_rmw": ov_chunk, "overlaps_refs_rmw": ov_refs}));

    // ---- quiescence
    let ops: Vec<OpRec> = logs.iter().flat_map(|l| l.lock().unwrap().clone()).collect();
    let mut arts: Vec<ArtRec> = registry.lock().unwrap().clone();
    for o in &ops {
        if let Some(e) = &o.err {
            let what = match o.kind {
                K::W => "write",
                K::D => "delete",
                K::Gc => "gc",
                K::FullGc => "full_gc",
                K::Repair => "repair",
            };
            ctx.fail(format!("conc-op-error:{what}"), format!("a concurrent {what} returned an error: {e}"))?;
            return Ok(());
        }
    }
    // a delete may be told "not found" only when another delete of the same artifact won
    for o in ops.iter().filter(|o| o.not_found) {
        let a = &arts[o.art.expect("delete records its artifact")];
        if !a.deleted {
            ctx.fail("conc-delete-notfound-for-live", "a delete was told the artifact does not exist, yet no delete of it returned Ok")?;
            return Ok(());
        }
    }
    for (j, a) in arts.iter().enumerate() {
        let ds: Vec<&OpRec> = ops.iter().filter(|o| o.kind == K::D && o.art == Some(j)).collect();
        if ds.len() > 1 {
            ctx.label("several threads deleted the same artifact");
            if ds.iter().enumerate().any(|(i, x)| ds[i + 1..].iter().any(|y| x.overlaps(y))) {
                ctx.label("two deletes of the same artifact overlapped in time");
                ctx.set_nontrivial();
            }
        }
        if a.delete_oks > 1 {
            ctx.label("two deletes of the same artifact both returned Ok");
        }
    }
    // overlap classes on shared chunks (evidence, and the categorical part of signatures)
    let collectors: Vec<&OpRec> = ops.iter().filter(|o| matches!(o.kind, K::Gc | K::FullGc | K::Repair)).collect();
    // categorical cause of a wrong count / lost chunk: which operations on that chunk overlapped in time
    let race_class = |key: &str| -> Option<&'static str> {
        let touching: Vec<&OpRec> = ops.iter().filter(|o| matches!(o.kind, K::W | K::D) && o.keys.iter().any(|k| k == key)).collect();
        let with_collector = |kind: K| touching.iter().any(|w| w.kind == K::W && collectors.iter().any(|c| c.kind == kind && w.overlaps(c)));
        if with_collector(K::FullGc) {
            return Some("W||full_gc");
        }
        if with_collector(K::Repair) {
            return Some("W||repair");
        }
        let mut best: Option<&'static str> = None;
        for (i, a) in touching.iter().enumerate() {
            for b in &touching[i + 1..] {
                if a.overlaps(b) {
                    let cl = match (a.kind, b.kind) {
                        (K::W, K::W) => "W||W",
                        (K::D, K::D) => "D||D",
                        _ => "W||D",
                    };
                    let rank = |c: &str| match c {
                        "W||W" => 0,
                        "W||D" => 1,
                        _ => 2,
                    };
                    if best.map_or(true, |b| rank(cl) < rank(b)) {
                        best = Some(cl);
                    }
                }
            }
        }
        if best.is_none() && with_collector(K::Gc) {
            return Some("W||gc");
        }
        best
    };
    let all_keys: BTreeSet<String> = ops.iter().flat_map(|o| o.keys.iter().cloned()).collect();
    for k in &all_keys {
        if let Some(cl) = race_class(k) {
            ctx.label(format!("{cl} overlap in time on a shared chunk"));
        }
    }
    let writer_op = |a: &ArtRec| -> Option<OpRec> { a.writer.map(|(t, i)| logs[t].lock().unwrap()[i].clone()) };
    for a in &arts {
        if let Some(w) = writer_op(a) {
            for col in &collectors {
                if w.overlaps(col) {
                    ctx.label(match col.kind {
                        K::Gc => "writer overlaps gc in time",
                        K::Repair => "writer overlaps repair in time",
                        _ => "writer overlaps full_gc in time",
                    });
                }
            }
        }
    }

    let table = chunk_table(blob.store());
    // Q2: every artifact whose put/finish returned Ok and that was not deleted reads back exactly
    for a in &arts {
        let exists = block_on(blob.exists(&a.id)).unwrap_or(false);
        if a.deleted {
            if exists {
                ctx.fail("conc-deleted-exists", "an artifact whose delete returned Ok still exists at quiescence")?;
                return Ok(());
            }
            continue;
        }
        if !exists {
            ctx.fail("conc-artifact-vanished", "an artifact whose put/finish returned Ok and that nobody deleted does not exist at quiescence")?;
            return Ok(());
        }
        if meta_chunks(blob.store(), &a.id).as_ref() != Some(&a.keys) {
            ctx.fail("conc-meta-mismatch", format!("the chunk list recorded for an artifact of {} bytes differs from the content-addressed keys of its data", a.bytes.len()))?;
            return Ok(());
        }
        if let Some(missing) = a.keys.iter().find(|k| !table.contains_key(*k)) {
            let w = writer_op(a);
            let ov = |kind: K| w.as_ref().map_or(false, |w| collectors.iter().any(|c| c.kind == kind && w.overlaps(c)));
            let class = if ov(K::FullGc) {
                "W||full_gc"
            } else if ov(K::Repair) {
                "W||repair"
            } else if ov(K::Gc) {
                "W||gc"
            } else {
                match race_class(missing) {
                    Some("W||full_gc") => "after:W||full_gc",
                    Some("W||repair") => "after:W||repair",
                    Some("W||W") => "after:W||W",
                    Some("W||D") => "after:W||D",
                    Some("D||D") => "after:D||D",
                    Some("W||gc") => "after:W||gc",
                    _ => "unexplained",
                }
            };
            ctx.fail(
                format!("conc-lost-chunk:{class}"),
                format!(
                    "at quiescence an artifact ({} bytes, written {}) whose put/finish returned Ok and that nobody deleted lacks chunk {}; get() = {:?}",
                    a.bytes.len(),
                    if a.writer.is_some() { "by a scripted thread" } else { "during setup" },
                    short(missing),
                    block_on(blob.get(&a.id)).map(|b| b.len())
                ),
            )?;
            return Ok(());
        }
        match block_on(blob.get(&a.id)) {
            Ok(b) if b == a.bytes => {},
            other => {
                ctx.fail("conc-get-mismatch", format!("at quiescence get() of a live artifact = {:?}, stored {} bytes", other.map(|b| b.len()), a.bytes.len()))?;
                return Ok(());
            },
        }
        if !matches!(blob.verify(&a.id), Ok(true)) {
            ctx.fail("conc-verify-false", "at quiescence verify() of a live artifact is not true")?;
            return Ok(());
        }
    }
    // Q1: reference counts against the live references (counted from the artifacts)
    let mut truth: BTreeMap<String, i64> = BTreeMap::new();
    for a in arts.iter().filter(|a| !a.deleted) {
        for k in &a.keys {
            *truth.entry(k.clone()).or_insert(0) += 1;
        }
    }
    for (k, rec) in &table {
        let t = truth.get(k).copied().unwrap_or(0);
        if rec.refs < t {
            let class = match race_class(k) {
                Some("W||W") => {
                    if preexisting.contains(k) {
                        "W||W:existing-chunk"
                    } else {
                        "W||W:new-chunk"
                    }
                },
                Some(c) => c,
                None => "no-overlap",
            };
            ctx.fail(
                format!("conc-refs-low:{class}"),
                format!(
                    "at quiescence chunk {} has _refs = {} but {t} live references (counted from the artifacts' chunk lists); deleting {} of them lets gc collect a chunk that is still needed ({} / {} overlapping read-modify-writes in this schedule)",
                    short(k),
                    rec.refs,
                    rec.refs.max(0),
                    ov_chunk,
                    ov_refs
                ),
            )?;
            return Ok(());
        }
        if rec.refs > t {
            ctx.label("reference over-count at quiescence (leak until full_gc/repair; not a violation)");
        }
    }
    // Q3: delete some, let time pass, collect: the others stay readable
    let mut li = 0usize;
    for a in arts.iter_mut().filter(|a| !a.deleted) {
        if case.post[li % case.post.len()] {
            if let Err(e) = block_on(blob.delete(&a.id)) {
                ctx.fail("conc-post-delete-error", format!("delete after quiescence failed: {e}"))?;
                return Ok(());
            }
            a.deleted = true;
        }
        li += 1;
    }
    age_all(blob.store());
    let _ = block_on(blob.gc());
    for a in arts.iter().filter(|a| !a.deleted) {
        match block_on(blob.get(&a.id)) {
            Ok(b) if b == a.bytes => {},
            other => {
                ctx.fail("conc-post-gc-lost", format!("after deleting other artifacts and an incremental gc, get() of a live artifact = {:?}, stored {} bytes", other.map(|b| b.len()), a.bytes.len()))?;
                return Ok(());
            },
        }
    }
    // Q4: full collection leaves exactly the live chunks; nothing when everything is deleted
    block_on(blob.full_gc()).map_err(|e| Fail::new("full_gc-error", e.to_string()))?;
    let want: BTreeSet<String> = arts.iter().filter(|a| !a.deleted).flat_map(|a| a.keys.iter().cloned()).collect();
    let have: BTreeSet<String> = chunk_table(blob.store()).into_keys().collect();
    if want != have {
        ctx.fail("conc-full_gc-wrong", format!("after quiescence full_gc leaves {} chunks, the live artifacts reference {} distinct chunks", have.len(), want.len()))?;
        return Ok(());
    }
    for a in arts.iter().filter(|a| !a.deleted) {
        if block_on(blob.get(&a.id)).ok().as_ref() != Some(&a.bytes) || !matches!(blob.verify(&a.id), Ok(true)) {
            ctx.fail("conc-post-full_gc-lost", "after full_gc a live artifact no longer reads back / verifies")?;
            return Ok(());
        }
    }
    for a in arts.iter_mut().filter(|a| !a.deleted) {
        block_on(blob.delete(&a.id)).map_err(|e| Fail::new("conc-post-delete-error", e.to_string()))?;
        a.deleted = true;
    }
    block_on(blob.full_gc()).map_err(|e| Fail::new("full_gc-error", e.to_string()))?;
    let st = block_on(blob.stats()).map_err(|e| Fail::new("stats-error", e.to_string()))?;
    if st.chunk_count != 0 {
        ctx.fail("conc-full_gc-leftover", format!("everything deleted, full_gc run: {} chunks remain", st.chunk_count))?;
    }
    Ok(())
}

// ------------------------------------------------------------------ stress (real threads)

/// Real threads, barrier start, everybody writes (and deletes) artifacts made of the same two
/// blocks. The failing unit is the recorded outcome.
pub fn stress_part() -> CustomPart {
    CustomPart {
        name: "stress",
        run: Box::new(|cfg, findings, stats| {
            if cfg.tier == Tier::Quick {
                // probabilistic by nature: kept out of the fixed-work quick tier
                stats.extra.insert("skipped".into(), serde_json::json!("real-thread stress runs in the thorough tier only"));
                return None;
            }
            let rounds = cfg.cases(0, 400);
            for r in 0..rounds {
                let threads = 2 + (r as usize % 7);
                let per = 30usize;
                let c = 16 + (r as usize % 3) * 8;
                let blob = Arc::new(new_store(c, false).ok()?);
                let barrier = Arc::new(std::sync::Barrier::new(threads));
                let hs: Vec<_> = (0..threads)
                    .map(|t| {
                        let (blob, barrier) = (blob.clone(), barrier.clone());
                        std::thread::spawn(move || {
                            barrier.wait();
                            let mut mine: Vec<(String, Vec<u8>, bool)> = Vec::new();
                            let mut errors = 0usize;
                            for k in 0..per {
                                let d = Data { head: 0, blocks: vec![(k % 2) as u8, ((k + t) % 2) as u8, 0], tail: Tail::None };
                                let bytes = d.bytes(c);
                                match block_on(blob.put("s.bin", &bytes, PutOptions::default())) {
                                    Ok(id) => mine.push((id, bytes, true)),
                                    Err(_) => errors += 1,
                                }
                                if k % 3 == 2 {
                                    let j = k / 3;
                                    if mine.len() > j && mine[j].2 {
                                        if block_on(blob.delete(&mine[j].0)).is_ok() {
                                            mine[j].2 = false;
                                        } else {
                                            errors += 1;
                                        }
                                    }
                                }
                            }
                            (mine, errors)
                        })
                    })
                    .collect();
                let mut arts: Vec<(String, Vec<u8>, bool)> = Vec::new();
                let mut errors = 0usize;
                for h in hs {
                    let (m, e) = h.join().unwrap_or((Vec::new(), 1));
                    arts.extend(m);
                    errors += e;
                }
                stats.evaluations += 1;
                stats.nontrivial.insert(nv_engine::fnv64(format!("{r}-{threads}").as_bytes()));
                let mut ctx = CaseCtx::new(findings, false);
                // quiescence
                let table = chunk_table(blob.store());
                let mut truth: BTreeMap<String, i64> = BTreeMap::new();
                for (_, bytes, live) in &arts {
                    if *live {
                        for k in keys_of(bytes, c) {
                            *truth.entry(k).or_insert(0) += 1;
                        }
                    }
                }
                let unreadable = arts.iter().filter(|(id, b, live)| *live && block_on(blob.get(id)).ok().as_ref() != Some(b)).count();
                let low: Vec<(String, i64, i64)> =
                    truth.iter().filter_map(|(k, t)| table.get(k).map(|r| r.refs).filter(|r| r < t).map(|r| (short(k), r, *t))).collect();
                // delete two thirds, let time pass, collect
                let mut lost_after_gc = 0usize;
                if unreadable == 0 {
                    for (i, a) in arts.iter_mut().enumerate() {
                        if a.2 && i % 3 != 0 && block_on(blob.delete(&a.0)).is_ok() {
                            a.2 = false;
                        }
                    }
                    age_all(blob.store());
                    let _ = block_on(blob.gc());
                    lost_after_gc = arts.iter().filter(|(id, b, live)| *live && block_on(blob.get(id)).ok().as_ref() != Some(b)).count();
                }
                let outcome = serde_json::json!({"round": r, "threads": threads, "puts_per_thread": per, "chunk": c, "errors": errors,
                    "unreadable_at_quiescence": unreadable, "refs_low": low, "unreadable_after_delete_and_gc": lost_after_gc});
                if stats.samples.is_empty() {
                    stats.sample(outcome.clone());
                }
                let fail = stress_verdict(&outcome, &mut ctx).err();
                if ctx.known_hit() {
                    stats.label("rounds hitting a known finding");
                    stats.excluded("stress:refs-low");
                }
                if let Some(f) = fail {
                    let path = nv_engine::runner::write_replay(cfg, "stress", &f, &outcome);
                    return Some(Violation { part: "stress".into(), sig: f.sig, msg: f.msg, replay: path });
                }
            }
            None
        }),
        replay: Box::new(|case, findings, strict| {
            let mut ctx = CaseCtx::new(findings, strict);
            stress_verdict(case, &mut ctx)
        }),
    }
}

fn stress_verdict(o: &serde_json::Value, ctx: &mut CaseCtx) -> Result<(), Fail> {
    let n = |k: &str| o[k].as_u64().unwrap_or(0);
    if n("errors") > 0 {
        ctx.fail("stress:op-error", format!("{} put/delete calls failed under concurrency", n("errors")))?;
    }
    if n("unreadable_at_quiescence") > 0 {
        ctx.fail("stress:unreadable", format!("{} live artifacts do not read back after {} threads wrote and deleted overlapping content (no collector ran)", n("unreadable_at_quiescence"), n("threads")))?;
    }
    let low = o["refs_low"].as_array().map(|a| a.len()).unwrap_or(0);
    if low > 0 || n("unreadable_after_delete_and_gc") > 0 {
        ctx.fail(
            "stress:refs-low",
            format!(
                "after {} real threads wrote/deleted artifacts made of the same blocks, {low} chunk(s) have _refs below the number of live references (chunk, _refs, live): {}; after deleting two thirds of the artifacts and an incremental gc {} live artifact(s) are unreadable",
                n("threads"),
                o["refs_low"],
                n("unreadable_after_delete_and_gc")
            ),
        )?;
    }
    Ok(())
}
