//! Part `trees`: random expression trees (depth <= 8) over every binary, prefix and postfix form of the
//! expression grammar, printed by the harness's own printers (documented precedence table) with
//! minimal and with full parentheses; both texts must parse back to the generated tree through each
//! of the three places the grammar is reachable from (`parse_expr`, a SELECT item, a WHERE clause).

use nv_c15::tree::{self, Op, UOp, T, AGGS, ALL_OPS, CTX_IDENTS, FUNCS, IDENTS, STR_POOL};
use nv_engine::{CaseCtx, Fail, Tier};
use proptest::prelude::*;
use serde::{Deserialize, Serialize};

#[derive(Clone, Debug, Serialize, Deserialize)]
pub struct TreeCase {
    pub tree: T,
    /// bit0 lower-case keywords, bit1 `<>` for `!=`, bit2 `!` for NOT, bit3 double-quoted strings
    pub style: u8,
}

fn ident() -> impl Strategy<Value = String> {
    prop_oneof![
        4 => prop::sample::select(IDENTS.to_vec()).prop_map(str::to_string),
        1 => prop::sample::select(CTX_IDENTS.to_vec()).prop_map(str::to_string),
    ]
}

fn plain_ident() -> impl Strategy<Value = String> {
    prop::sample::select(IDENTS.to_vec()).prop_map(str::to_string)
}

fn leaf() -> impl Strategy<Value = T> {
    prop_oneof![
        5 => ident().prop_map(T::Ident),
        3 => (0i64..100).prop_map(T::Int),
        1 => prop::sample::select(vec![0i64, 1, i64::from(u32::MAX), i64::MAX]).prop_map(T::Int),
        2 => (0u32..400).prop_map(T::Float),
        2 => prop::sample::select(STR_POOL.to_vec()).prop_map(|s| T::Str(s.to_string())),
        1 => any::<bool>().prop_map(T::Bool),
        1 => Just(T::Null),
    ]
}

fn op() -> impl Strategy<Value = Op> {
    prop::sample::select(ALL_OPS.to_vec())
}

fn uop() -> impl Strategy<Value = UOp> {
    prop::sample::select(vec![UOp::Not, UOp::Neg, UOp::BitNot])
}

pub fn tree_strategy() -> impl Strategy<Value = T> {
    leaf().prop_recursive(7, 400, 3, |inner| {
        let b = |s: BoxedStrategy<T>| s.prop_map(Box::new);
        let i = inner.clone().boxed();
        prop_oneof![
            12 => (b(i.clone()), op(), b(i.clone())).prop_map(|(l, o, r)| T::Bin(l, o, r)),
            4 => (uop(), b(i.clone())).prop_map(|(o, e)| T::Un(o, e)),
            2 => (b(i.clone()), any::<bool>()).prop_map(|(e, n)| T::IsNull(e, n)),
            2 => (b(i.clone()), prop::collection::vec(i.clone(), 0..3), any::<bool>()).prop_map(|(e, v, n)| T::In(e, v, n)),
            2 => (b(i.clone()), b(i.clone()), b(i.clone()), any::<bool>()).prop_map(|(e, l, h, n)| T::Between(e, l, h, n)),
            2 => (b(i.clone()), b(i.clone()), any::<bool>()).prop_map(|(e, p, n)| T::Like(e, p, n)),
            1 => (b(i.clone()), plain_ident()).prop_map(|(e, n)| T::Qualified(e, n)),
            1 => (prop::sample::select(FUNCS.to_vec()), prop::collection::vec(i.clone(), 0..3)).prop_map(|(f, a)| T::Call(f.to_string(), a, false)),
            1 => (prop::sample::select(AGGS.to_vec()), i.clone(), any::<bool>(), 0u8..4).prop_map(|(f, a, d, star)| {
                if star == 0 { T::Call(f.to_string(), vec![T::Wildcard], false) } else { T::Call(f.to_string(), vec![a], d) }
            }),
            1 => (prop::option::of(b(i.clone())), prop::collection::vec((i.clone(), i.clone()), 1..3), prop::option::of(b(i.clone())))
                .prop_map(|(o, w, e)| T::Case(o, w, e)),
            1 => prop::collection::vec(i.clone(), 0..3).prop_map(T::Array),
            1 => prop::collection::vec(i.clone(), 0..4).prop_map(|mut v| {
                if v.len() == 1 {
                    // a one-element parenthesis is grouping, not a tuple
                    let x = v[0].clone();
                    v.push(x);
                }
                T::Tuple(v)
            }),
        ]
    })
}

/// Trees decoded from a byte program by the same builder the `roundtrip` fuzz target uses: these reach
/// the full depth 8 far more often than the recursive strategy does.
fn deep_tree_strategy() -> impl Strategy<Value = T> {
    prop::collection::vec(any::<u8>(), 24..400).prop_map(|bytes| {
        let mut b = tree::Bytes::new(&bytes);
        // 7 operator levels + a leaf level = depth 8
        tree::build(&mut b, 7)
    })
}

pub fn strategy(_t: Tier) -> impl Strategy<Value = TreeCase> {
    (prop_oneof![3 => tree_strategy().boxed(), 1 => deep_tree_strategy().boxed()], 0u8..16).prop_map(|(tree, style)| TreeCase { tree, style })
}

fn same_level_chain(t: &T) -> bool {
    // a binary node with a child of its own level: associativity decides the grouping
    let here = match t {
        T::Bin(l, o, r) => l.level() == o.level() || r.level() == o.level(),
        _ => false,
    };
    here || t.children().iter().any(|c| same_level_chain(c))
}

pub fn check(c: &TreeCase, ctx: &mut CaseCtx) -> Result<(), Fail> {
    let t = &c.tree;
    let mut lv = 0u16;
    t.levels(&mut lv);
    let nlev = lv.count_ones();
    let (pm, pf) = t.paren_counts();
    ctx.label(format!("levels:{}", nlev.min(6)));
    if pm < pf {
        ctx.label("minimal-omits-paren");
    }
    if pm > 0 {
        ctx.label("minimal-keeps-paren");
    }
    if same_level_chain(t) {
        ctx.label("same-level-operand(associativity)");
    }
    for l in 1..=11u8 {
        if lv & (1 << l) != 0 {
            ctx.label(format!("has:L{l}"));
        }
    }
    ctx.label(format!("depth:{}", t.depth()));
    if nlev >= 3 && pm < pf {
        ctx.set_nontrivial();
    }
    for entry in tree::ENTRIES {
        if let Err(f) = tree::check_roundtrip(t, c.style, entry) {
            ctx.fail(f.sig, f.msg)?;
        }
    }
    Ok(())
}
