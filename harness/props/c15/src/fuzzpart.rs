//! Parts `corpus` and `fuzz`.
//!
//! `corpus` (both tiers, no nightly needed) replays the committed seed corpus
//! `/verif/fuzz_c15/corpus_seed/<target>/*` through `nv_c15::targets::run`, the very function the
//! libFuzzer binaries call.
//!
//! `fuzz` (thorough tier) builds the cargo-fuzz project and runs every target for a bounded campaign
//! on a fresh temporary corpus directory seeded from `corpus_seed`. A crash artifact is re-run through
//! the in-binary oracle in a child process and becomes a VIOLATION only if it reproduces there. A missing
//! nightly toolchain / failed fuzz build is recorded as `skipped` in the evidence, never as a violation.

use nv_c15::targets::{self, TARGETS};
use nv_engine::runner::write_replay;
use nv_engine::{CustomPart, Fail, Findings, PartStats, RunCfg, Tier, Violation};
use serde_json::{json, Value};
use std::path::{Path, PathBuf};
use std::process::{Command, Stdio};
use std::time::Duration;

fn fuzz_dir() -> PathBuf {
    nv_engine::root().join("fuzz_c15")
}

fn seed_dir(target: &str) -> PathBuf {
    fuzz_dir().join("corpus_seed").join(target)
}

fn hex(b: &[u8]) -> String {
    b.iter().map(|x| format!("{x:02x}")).collect()
}

fn unhex(s: &str) -> Vec<u8> {
    (0..s.len() / 2).filter_map(|i| u8::from_str_radix(&s[2 * i..2 * i + 2], 16).ok()).collect()
}

fn sorted_files(dir: &Path) -> Vec<PathBuf> {
    let mut v: Vec<PathBuf> = std::fs::read_dir(dir).map(|rd| rd.filter_map(|e| e.ok()).map(|e| e.path()).filter(|p| p.is_file()).collect()).unwrap_or_default();
    v.sort();
    v
}

/// Run one input through the target body, panics of the product caught.
fn run_guarded(target: &str, data: &[u8]) -> Result<targets::TargetInfo, Fail> {
    let r = std::panic::catch_unwind(std::panic::AssertUnwindSafe(|| targets::run(target, data)));
    match r {
        Ok(Ok(i)) => Ok(i),
        Ok(Err(f)) => Err(Fail::new(f.sig, f.msg)),
        Err(p) => Err(Fail::new(format!("panic:{target}"), format!("panic: {}", nv_engine::runner::panic_message(&p)))),
    }
}

fn nontrivial(info: &targets::TargetInfo) -> bool {
    match info.tree {
        Some((levels, pm, pf, _)) => levels >= 3 && pm < pf,
        None => info.info.keyword_tokens >= 1,
    }
}

pub fn corpus_part() -> CustomPart {
    CustomPart {
        name: "corpus",
        run: Box::new(|cfg: &RunCfg, findings: &Findings, stats: &mut PartStats| {
            let mut violation = None;
            for target in TARGETS {
                let files = sorted_files(&seed_dir(target));
                if files.is_empty() {
                    eprintln!("nv C15 corpus: no seed files for target {target} under {}", seed_dir(target).display());
                    stats.label(&format!("{target}:no-seed-files"));
                }
                for f in files {
                    let Ok(data) = std::fs::read(&f) else { continue };
                    stats.evaluations += 1;
                    match run_guarded(target, &data) {
                        Ok(info) => {
                            if nontrivial(&info) {
                                stats.nontrivial.insert(nv_engine::fnv64(&data) ^ nv_engine::fnv64(target.as_bytes()));
                                stats.label(&format!("{target}:nontrivial"));
                                if stats.samples.len() < 3 && target != "roundtrip" && data.len() > 20 {
                                    stats.sample(json!({ "target": target, "text": targets::text_of(&data) }));
                                }
                            }
                            stats.label(&format!("{target}:inputs"));
                            match info.info.parse_ok {
                                Some(true) => stats.label(&format!("{target}:parse-ok")),
                                Some(false) => stats.label(&format!("{target}:parse-err")),
                                None => {},
                            }
                            match info.info.expr_ok {
                                Some(true) => stats.label(&format!("{target}:expr-ok")),
                                Some(false) => stats.label(&format!("{target}:expr-err")),
                                None => {},
                            }
                        },
                        Err(fl) => {
                            if findings.is_known(&fl.sig) {
                                stats.excluded(&fl.sig);
                            } else if violation.is_none() {
                                let case = json!({ "target": target, "file": f.display().to_string(), "hex": hex(&data) });
                                let path = write_replay(cfg, "corpus", &fl, &case);
                                violation = Some(Violation { part: "corpus".into(), sig: fl.sig, msg: fl.msg, replay: path });
                            }
                        },
                    }
                }
            }
            violation
        }),
        replay: Box::new(replay_bytes),
    }
}

fn replay_bytes(case: &Value, findings: &Findings, strict: bool) -> Result<(), Fail> {
    let target = case["target"].as_str().unwrap_or("");
    let data = unhex(case["hex"].as_str().unwrap_or(""));
    match run_guarded(target, &data) {
        Ok(_) => Ok(()),
        Err(f) if !strict && findings.is_known(&f.sig) => Ok(()),
        Err(f) => Err(f),
    }
}

/// Child: `fuzz-repro <target> <file>` — re-run a libFuzzer artifact through the in-binary oracle.
pub fn repro_child(args: &[String]) -> i32 {
    if args.len() < 2 {
        return 2;
    }
    let Ok(data) = std::fs::read(&args[1]) else { return 2 };
    match run_guarded(&args[0], &data) {
        Ok(_) => {
            println!("OK");
            0
        },
        Err(f) => {
            println!("FAIL {} :: {}", f.sig, f.msg);
            3
        },
    }
}

struct Campaign {
    target: &'static str,
    executed: u64,
    new_units: u64,
    status: String,
    artifacts: Vec<PathBuf>,
    tail: String,
}

fn cargo_nightly() -> Command {
    let mut c = Command::new("cargo");
    c.arg("+nightly").env_remove("RUSTFLAGS").env_remove("CARGO_ENCODED_RUSTFLAGS").env("CARGO_NET_OFFLINE", "true");
    c
}

fn run_with_budget(mut c: Command, budget: Duration) -> std::io::Result<(Option<i32>, String, bool)> {
    use std::io::Read;
    let mut child = c.stdin(Stdio::null()).stdout(Stdio::piped()).stderr(Stdio::piped()).spawn()?;
    let mut so = child.stdout.take().expect("piped");
    let mut se = child.stderr.take().expect("piped");
    let t1 = std::thread::spawn(move || {
        let mut s = String::new();
        let _ = so.read_to_string(&mut s);
        s
    });
    let t2 = std::thread::spawn(move || {
        let mut b = Vec::new();
        let _ = se.read_to_end(&mut b);
        String::from_utf8_lossy(&b).into_owned()
    });
    let t0 = std::time::Instant::now();
    let mut timed_out = false;
    let st = loop {
        if let Some(st) = child.try_wait()? {
            break st;
        }
        if t0.elapsed() > budget {
            timed_out = true;
            let _ = child.kill();
            break child.wait()?;
        }
        std::thread::sleep(Duration::from_millis(50));
    };
    let out = format!("{}{}", t1.join().unwrap_or_default(), t2.join().unwrap_or_default());
    Ok((st.code(), out, timed_out))
}

fn stat(out: &str, key: &str) -> u64 {
    out.lines().find_map(|l| l.trim().strip_prefix(key).and_then(|r| r.trim().trim_start_matches(':').trim().parse().ok())).unwrap_or(0)
}

pub fn fuzz_part() -> CustomPart {
    CustomPart {
        name: "fuzz",
        run: Box::new(|cfg: &RunCfg, findings: &Findings, stats: &mut PartStats| {
            if cfg.tier == Tier::Quick {
                stats.extra.insert("skipped".into(), json!("quick tier: libFuzzer campaigns run in the thorough tier only (the corpus part replays the seeds)"));
                return None;
            }
            let dir = fuzz_dir();
            // 1. toolchain + build
            let probe = cargo_nightly().args(["fuzz", "--version"]).output();
            if !probe.map(|o| o.status.success()).unwrap_or(false) {
                stats.extra.insert("skipped".into(), json!("cargo +nightly fuzz is not available"));
                eprintln!("nv C15 fuzz: skipped (cargo +nightly fuzz not available)");
                return None;
            }
            let mut b = cargo_nightly();
            b.current_dir(&dir).args(["fuzz", "build", "-s", "none", "--fuzz-dir"]).arg(&dir);
            match run_with_budget(b, Duration::from_secs(1500)) {
                Ok((Some(0), _, false)) => {},
                Ok((code, out, to)) => {
                    let tail: String = out.lines().rev().take(12).collect::<Vec<_>>().into_iter().rev().collect::<Vec<_>>().join("\n");
                    stats.extra.insert("skipped".into(), json!(format!("fuzz build failed (code {code:?}, timeout {to}): {tail}")));
                    eprintln!("nv C15 fuzz: skipped, build failed:\n{tail}");
                    return None;
                },
                Err(e) => {
                    stats.extra.insert("skipped".into(), json!(format!("cannot run cargo: {e}")));
                    return None;
                },
            }
            // 2. campaigns, one thread per target
            let base_runs = u64::from(cfg.cases(200_000, 2_000_000));
            let seed = (cfg.seed % 0x7fff_fff0) + 1; // libFuzzer treats -seed=0 as "pick a random seed"
            let scratch = nv_engine::scratch::Dir::new("c15fuzz");
            let campaigns: Vec<Campaign> = std::thread::scope(|sc| {
                let hs: Vec<_> = TARGETS
                    .iter()
                    .map(|target| {
                        let dir = dir.clone();
                        let base = scratch.path().to_path_buf();
                        // the structure-aware target is several times slower per execution
                        let runs = if *target == "roundtrip" { base_runs / 2 } else { base_runs };
                        sc.spawn(move || {
                            let corpus = base.join(format!("corpus-{target}"));
                            let arts = base.join(format!("artifacts-{target}"));
                            let _ = std::fs::create_dir_all(&corpus);
                            let _ = std::fs::create_dir_all(&arts);
                            for f in sorted_files(&seed_dir(target)) {
                                if let Some(n) = f.file_name() {
                                    let _ = std::fs::copy(&f, corpus.join(n));
                                }
                            }
                            let before = sorted_files(&corpus).len() as u64;
                            let mut c = cargo_nightly();
                            c.current_dir(&dir).args(["fuzz", "run", "-s", "none", "--fuzz-dir"]).arg(&dir).arg(target).arg(&corpus).arg("--").args([
                                format!("-runs={runs}"),
                                format!("-seed={seed}"),
                                "-len_control=0".to_string(),
                                "-max_len=4096".to_string(),
                                "-timeout=20".to_string(),
                                "-rss_limit_mb=4096".to_string(),
                                "-print_final_stats=1".to_string(),
                                format!("-artifact_prefix={}/", arts.display()),
                            ]);
                            let dict = dir.join("keywords.dict");
                            if dict.is_file() && *target != "roundtrip" {
                                c.arg(format!("-dict={}", dict.display()));
                            }
                            match run_with_budget(c, Duration::from_secs(3000)) {
                                Ok((code, out, timed_out)) => {
                                    let tail: String = out.lines().rev().take(25).collect::<Vec<_>>().into_iter().rev().collect::<Vec<_>>().join("\n");
                                    Campaign {
                                        target,
                                        executed: stat(&out, "stat::number_of_executed_units"),
                                        new_units: (sorted_files(&corpus).len() as u64).saturating_sub(before),
                                        status: if timed_out { "time-budget".into() } else { format!("exit:{}", code.map_or("signal".to_string(), |c| c.to_string())) },
                                        artifacts: sorted_files(&arts),
                                        tail,
                                    }
                                },
                                Err(e) => Campaign { target, executed: 0, new_units: 0, status: format!("spawn-error:{e}"), artifacts: vec![], tail: String::new() },
                            }
                        })
                    })
                    .collect();
                hs.into_iter().filter_map(|h| h.join().ok()).collect()
            });
            // 3. interpret
            let mut violation: Option<Violation> = None;
            // the evolved corpora, once more through the oracle in this binary (and the source of the
            // non-triviality count: libFuzzer does not report per-input classes)
            for target in TARGETS {
                for f in sorted_files(&scratch.path().join(format!("corpus-{target}"))) {
                    let Ok(data) = std::fs::read(&f) else { continue };
                    match run_guarded(target, &data) {
                        Ok(info) => {
                            stats.label(&format!("{target}:final-corpus-units"));
                            if nontrivial(&info) {
                                stats.nontrivial.insert(nv_engine::fnv64(&data) ^ nv_engine::fnv64(target.as_bytes()));
                                stats.label(&format!("{target}:final-corpus-nontrivial"));
                            }
                        },
                        Err(fl) => {
                            if findings.is_known(&fl.sig) {
                                stats.excluded(&fl.sig);
                            } else if violation.is_none() {
                                let case = json!({ "target": target, "file": f.display().to_string(), "hex": hex(&data) });
                                let path = write_replay(cfg, "fuzz", &fl, &case);
                                violation = Some(Violation { part: "fuzz".into(), sig: fl.sig, msg: fl.msg, replay: path });
                            }
                        },
                    }
                }
            }
            let mut per_target = serde_json::Map::new();
            for c in &campaigns {
                stats.evaluations += c.executed;
                stats.label_n(&format!("{}:executed", c.target), c.executed);
                stats.label_n(&format!("{}:new-corpus-units", c.target), c.new_units);
                per_target.insert(c.target.to_string(), json!({ "executed": c.executed, "new_units": c.new_units, "status": c.status, "artifacts": c.artifacts.len() }));
                if c.status != "exit:0" && c.artifacts.is_empty() {
                    stats.label(&format!("{}:inconclusive:{}", c.target, c.status));
                    eprintln!("nv C15 fuzz: target {} ended with {} and no artifact — inconclusive\n{}", c.target, c.status, c.tail);
                }
                for a in &c.artifacts {
                    let data = std::fs::read(a).unwrap_or_default();
                    let name = a.file_name().map(|n| n.to_string_lossy().into_owned()).unwrap_or_default();
                    if name.starts_with("timeout-") || name.starts_with("oom-") || name.starts_with("slow-unit-") {
                        stats.label(&format!("{}:inconclusive-artifact:{}", c.target, name.split('-').next().unwrap_or("")));
                        continue;
                    }
                    let r = crate::nest::run_child_budget("fuzz-repro", &[c.target.to_string(), a.display().to_string()], Duration::from_secs(20));
                    let verdict: Option<Fail> = match r {
                        Ok(o) if o.timed_out => None,
                        Ok(o) if o.code == Some(0) => None,
                        Ok(o) if o.code == Some(3) => {
                            let line = o.stdout.lines().find(|l| l.starts_with("FAIL ")).unwrap_or("FAIL unknown :: ").to_string();
                            let rest = &line[5..];
                            let (sig, msg) = rest.split_once(" :: ").unwrap_or((rest, ""));
                            Some(Fail::new(sig, msg))
                        },
                        Ok(o) => Some(Fail::new(
                            format!("fuzz-crash:{}", c.target),
                            format!("artifact {name} kills the in-binary oracle too (code {:?}, signal {:?}): {}", o.code, o.signal, o.stderr.lines().next().unwrap_or("")),
                        )),
                        Err(_) => None,
                    };
                    match verdict {
                        None => {
                            stats.label(&format!("{}:artifact-not-reproduced", c.target));
                            eprintln!("nv C15 fuzz: artifact {name} of target {} does not reproduce in the harness binary (not reported)", c.target);
                        },
                        Some(f) => {
                            if findings.is_known(&f.sig) {
                                stats.excluded(&f.sig);
                            } else if violation.is_none() {
                                let case = json!({ "target": c.target, "file": name, "hex": hex(&data) });
                                let path = write_replay(cfg, "fuzz", &f, &case);
                                violation = Some(Violation { part: "fuzz".into(), sig: f.sig, msg: f.msg, replay: path });
                            }
                        },
                    }
                }
            }
            stats.extra.insert("campaigns".into(), Value::Object(per_target));
            stats.extra.insert("runs_per_target".into(), json!({ "lex": base_runs, "stmt": base_runs, "expr": base_runs, "roundtrip": base_runs / 2 }));
            stats.extra.insert("libfuzzer_seed".into(), json!(seed));
            violation
        }),
        replay: Box::new(replay_bytes),
    }
}

/// Child: `gen-corpus <out-dir>` — (re)generate the committed seed corpus deterministically from the
/// harvested seeds, small generated trees and a few files of /repo/fuzz/corpus/parser_* (read-only).
pub fn gen_corpus_child(args: &[String]) -> i32 {
    use nv_c15::tree;
    let out = PathBuf::from(args.first().cloned().unwrap_or_else(|| fuzz_dir().join("corpus_seed").display().to_string()));
    let put = |target: &str, data: &[u8]| {
        let d = out.join(target);
        let _ = std::fs::create_dir_all(&d);
        let _ = std::fs::write(d.join(format!("{:016x}", nv_engine::fnv64(data))), data);
    };
    let seeds = nv_c15::seeds();
    // statements: spread over the list, every distinct first word at least a few times
    let mut per_word: std::collections::BTreeMap<String, usize> = std::collections::BTreeMap::new();
    for (i, s) in seeds.iter().enumerate() {
        let w = s.split_whitespace().next().unwrap_or("").to_uppercase();
        let n = per_word.entry(w).or_insert(0);
        *n += 1;
        let expr_like = nv_c15::oracle::check(s, nv_c15::oracle::EXPR).map(|i| i.expr_ok == Some(true)).unwrap_or(false);
        if expr_like && i % 2 == 0 {
            put("expr", s.as_bytes());
        }
        if *n <= 3 || i % 11 == 0 {
            put("stmt", s.as_bytes());
        }
        if i % 25 == 0 || s.contains('\'') && i % 12 == 0 {
            put("lex", s.as_bytes());
        }
    }
    // generated trees, printed (expr) and as byte programs (roundtrip)
    for k in 0u32..100 {
        let bytes: Vec<u8> = (0..96u32).map(|j| (nv_engine::mix(u64::from(k) * 1315423911 + u64::from(j)) >> 24) as u8).collect();
        put("roundtrip", &bytes);
        let mut b = tree::Bytes::new(&bytes[2..]);
        let t = tree::build(&mut b, 5);
        if k % 2 == 0 {
            put("expr", t.minimal().as_bytes());
        } else {
            put("stmt", format!("SELECT * FROM t WHERE {}", t.minimal()).as_bytes());
        }
    }
    for s in ["", " ", "'", "\"", "--", "/*", "/* /* */", "\u{feff}SELECT 1", "SELECT 'é'", "1e", "9223372036854775808", "'a\\", "x.\u{e9}"] {
        put("lex", s.as_bytes());
        put("stmt", s.as_bytes());
        put("expr", s.as_bytes());
    }
    // a few small inputs of the product's own fuzz corpus
    for (dirname, target, cap) in [("parser_parse", "stmt", 60usize), ("parser_parse_all", "stmt", 30), ("parser_parse_expr", "expr", 40), ("parser_tokenize", "lex", 40)] {
        let mut n = 0;
        for f in sorted_files(Path::new("/repo/fuzz/corpus").join(dirname).as_path()) {
            if n >= cap {
                break;
            }
            if let Ok(d) = std::fs::read(&f) {
                if d.len() >= 8 && d.len() <= 160 {
                    put(target, &d);
                    n += 1;
                }
            }
        }
    }
    // libFuzzer dictionary: every keyword and multi-character operator
    if let Some(parent) = out.parent() {
        let mut d = String::from("# generated by `nv_c15 child gen-corpus`\n");
        for k in nv_c15::KEYWORDS {
            d.push_str(&format!("\"{k}\"\n"));
        }
        for p in ["<=", ">=", "<>", "!=", "<<", ">>", "||", "&&", "->", "=>", "::", "--", "/*", "*/", "''", "\\\\"] {
            d.push_str(&format!("\"{p}\"\n"));
        }
        let _ = std::fs::write(parent.join("keywords.dict"), d);
    }
    let mut total = 0u64;
    for t in TARGETS {
        let fs = sorted_files(&out.join(t));
        let bytes: u64 = fs.iter().filter_map(|f| std::fs::metadata(f).ok()).map(|m| m.len()).sum();
        println!("{t}: {} files, {bytes} bytes", fs.len());
        total += bytes;
    }
    println!("total {total} bytes");
    0
}
