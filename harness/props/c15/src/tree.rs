//! Oracle 2: the harness's own expression tree and printers.
//!
//! The printers implement the **documented** precedence table (neumann_parser/src/expr.rs:7-18 and
//! docs/book/src/architecture/neumann-parser.md "Binding Power Table"), independently of the parser:
//!
//! | level | operators                                   | associativity |
//! |   1   | OR                                          | left  |
//! |   2   | AND                                         | left  |
//! |   3   | = != < <= > >=                              | left  |
//! |   4   | \|                                          | left  |
//! |   5   | ^                                           | left  |
//! |   6   | &                                           | left  |
//! |   7   | << >>                                       | left  |
//! |   8   | + - \|\|                                    | left  |
//! |   9   | * / %                                       | left  |
//! |  10   | NOT - ~ (prefix)                            | right |
//! |  11   | IS [NOT] NULL, [NOT] IN, [NOT] BETWEEN, [NOT] LIKE, `.` (postfix) |
//! |  12   | literals, identifiers, calls, CASE, arrays, tuples, parenthesised |
//!
//! `minimal()` omits every parenthesis the table makes redundant; `full()` parenthesises every
//! operator node that is an operand. Where the documentation is silent the minimal printer keeps the
//! parenthesis (see `needs_paren_*`): the bounds/pattern of BETWEEN / LIKE are printed bare only when
//! they are prefix-level or tighter, and a BETWEEN / LIKE that is itself the left operand of a
//! postfix operator is parenthesised.

use neumann_parser::{BinaryOp, Expr, ExprKind, InList, Literal, UnaryOp};

#[cfg(feature = "full")]
use serde::{Deserialize, Serialize};

/// Plain identifiers (none is a keyword; checked by `self_check`).
pub const IDENTS: &[&str] = &["a", "b", "c", "x", "y", "z", "foo", "bar", "col1", "t1", "price", "qty", "name", "age", "_u", "Abc"];
/// Function names.
pub const FUNCS: &[&str] = &["f", "g", "coalesce", "lower", "abs"];
/// Contextual keywords the grammar documents as usable in identifier position
/// (`TokenKind::is_contextual_keyword`); the parser yields them lower-cased.
pub const CTX_IDENTS: &[&str] = &["status", "type", "depth", "total", "text", "int", "graph", "height", "info", "tag"];
pub const AGGS: &[&str] = &["COUNT", "SUM", "AVG", "MIN", "MAX"];

#[derive(Clone, Copy, Debug, PartialEq, Eq, PartialOrd, Ord, Hash)]
#[cfg_attr(feature = "full", derive(Serialize, Deserialize))]
pub enum Op {
    Or,
    And,
    Eq,
    Ne,
    Lt,
    Le,
    Gt,
    Ge,
    BitOr,
    BitXor,
    BitAnd,
    Shl,
    Shr,
    Add,
    Sub,
    Concat,
    Mul,
    Div,
    Mod,
}

pub const ALL_OPS: [Op; 19] = [
    Op::Or,
    Op::And,
    Op::Eq,
    Op::Ne,
    Op::Lt,
    Op::Le,
    Op::Gt,
    Op::Ge,
    Op::BitOr,
    Op::BitXor,
    Op::BitAnd,
    Op::Shl,
    Op::Shr,
    Op::Add,
    Op::Sub,
    Op::Concat,
    Op::Mul,
    Op::Div,
    Op::Mod,
];

impl Op {
    /// Documented precedence level (higher binds tighter).
    pub fn level(self) -> u8 {
        match self {
            Op::Or => 1,
            Op::And => 2,
            Op::Eq | Op::Ne | Op::Lt | Op::Le | Op::Gt | Op::Ge => 3,
            Op::BitOr => 4,
            Op::BitXor => 5,
            Op::BitAnd => 6,
            Op::Shl | Op::Shr => 7,
            Op::Add | Op::Sub | Op::Concat => 8,
            Op::Mul | Op::Div | Op::Mod => 9,
        }
    }
    pub fn text(self, style: u8) -> &'static str {
        match self {
            Op::Or => {
                if style & 1 != 0 {
                    "or"
                } else {
                    "OR"
                }
            },
            Op::And => {
                if style & 1 != 0 {
                    "and"
                } else {
                    "AND"
                }
            },
            Op::Eq => "=",
            Op::Ne => {
                if style & 2 != 0 {
                    "<>"
                } else {
                    "!="
                }
            },
            Op::Lt => "<",
            Op::Le => "<=",
            Op::Gt => ">",
            Op::Ge => ">=",
            Op::BitOr => "|",
            Op::BitXor => "^",
            Op::BitAnd => "&",
            Op::Shl => "<<",
            Op::Shr => ">>",
            Op::Add => "+",
            Op::Sub => "-",
            Op::Concat => "||",
            Op::Mul => "*",
            Op::Div => "/",
            Op::Mod => "%",
        }
    }
    fn from_ast(op: BinaryOp) -> Op {
        match op {
            BinaryOp::Or => Op::Or,
            BinaryOp::And => Op::And,
            BinaryOp::Eq => Op::Eq,
            BinaryOp::Ne => Op::Ne,
            BinaryOp::Lt => Op::Lt,
            BinaryOp::Le => Op::Le,
            BinaryOp::Gt => Op::Gt,
            BinaryOp::Ge => Op::Ge,
            BinaryOp::BitOr => Op::BitOr,
            BinaryOp::BitXor => Op::BitXor,
            BinaryOp::BitAnd => Op::BitAnd,
            BinaryOp::Shl => Op::Shl,
            BinaryOp::Shr => Op::Shr,
            BinaryOp::Add => Op::Add,
            BinaryOp::Sub => Op::Sub,
            BinaryOp::Concat => Op::Concat,
            BinaryOp::Mul => Op::Mul,
            BinaryOp::Div => Op::Div,
            BinaryOp::Mod => Op::Mod,
        }
    }
}

#[derive(Clone, Copy, Debug, PartialEq, Eq, Hash)]
#[cfg_attr(feature = "full", derive(Serialize, Deserialize))]
pub enum UOp {
    Not,
    Neg,
    BitNot,
}

pub const LEVEL_UNARY: u8 = 10;
pub const LEVEL_POSTFIX: u8 = 11;
pub const LEVEL_PRIMARY: u8 = 12;

/// Expression tree (no spans, no parenthesis nodes).
#[derive(Clone, Debug, PartialEq)]
#[cfg_attr(feature = "full", derive(Serialize, Deserialize))]
pub enum T {
    Null,
    Bool(bool),
    Int(i64),
    /// value = quarters / 4 (exactly representable, printed with two decimals)
    Float(u32),
    Str(String),
    Ident(String),
    Wildcard,
    Bin(Box<T>, Op, Box<T>),
    Un(UOp, Box<T>),
    IsNull(Box<T>, bool),
    In(Box<T>, Vec<T>, bool),
    Between(Box<T>, Box<T>, Box<T>, bool),
    Like(Box<T>, Box<T>, bool),
    Qualified(Box<T>, String),
    Call(String, Vec<T>, bool),
    Case(Option<Box<T>>, Vec<(T, T)>, Option<Box<T>>),
    Array(Vec<T>),
    Tuple(Vec<T>),
    /// anything the tree does not model (sub-queries, CAST, qualified wildcard, odd literals)
    Other(String),
}

fn kw(s: &'static str, style: u8) -> String {
    if style & 1 != 0 {
        s.to_lowercase()
    } else {
        s.to_string()
    }
}

pub fn quote(s: &str) -> String {
    quote_with(s, '\'')
}

pub fn quote_with(s: &str, q: char) -> String {
    let mut out = String::from(q);
    for c in s.chars() {
        match c {
            c if c == q => {
                out.push(q);
                out.push(q);
            },
            '\\' => out.push_str("\\\\"),
            '\n' => out.push_str("\\n"),
            '\r' => out.push_str("\\r"),
            '\t' => out.push_str("\\t"),
            '\0' => out.push_str("\\0"),
            c => out.push(c),
        }
    }
    out.push(q);
    out
}

impl T {
    pub fn level(&self) -> u8 {
        match self {
            T::Bin(_, op, _) => op.level(),
            T::Un(..) => LEVEL_UNARY,
            T::IsNull(..) | T::In(..) | T::Between(..) | T::Like(..) | T::Qualified(..) => LEVEL_POSTFIX,
            _ => LEVEL_PRIMARY,
        }
    }

    /// BETWEEN / LIKE end with an operand parsed at prefix level: a following postfix operator would
    /// attach to that operand, not to the whole form.
    fn right_open(&self) -> bool {
        matches!(self, T::Between(..) | T::Like(..))
    }

    pub fn depth(&self) -> usize {
        1 + self.children().iter().map(|c| c.depth()).max().unwrap_or(0)
    }

    pub fn size(&self) -> usize {
        1 + self.children().iter().map(|c| c.size()).sum::<usize>()
    }

    pub fn children(&self) -> Vec<&T> {
        match self {
            T::Bin(l, _, r) => vec![l, r],
            T::Un(_, e) | T::IsNull(e, _) | T::Qualified(e, _) => vec![e],
            T::In(e, v, _) => std::iter::once(&**e).chain(v.iter()).collect(),
            T::Between(e, l, h, _) => vec![e, l, h],
            T::Like(e, p, _) => vec![e, p],
            T::Call(_, a, _) | T::Array(a) | T::Tuple(a) => a.iter().collect(),
            T::Case(o, w, e) => {
                let mut v: Vec<&T> = Vec::new();
                if let Some(o) = o {
                    v.push(o);
                }
                for (c, r) in w {
                    v.push(c);
                    v.push(r);
                }
                if let Some(e) = e {
                    v.push(e);
                }
                v
            },
            _ => vec![],
        }
    }

    /// Distinct documented precedence levels of the operator nodes (1..=11).
    pub fn levels(&self, acc: &mut u16) {
        let l = self.level();
        if l < LEVEL_PRIMARY {
            *acc |= 1 << l;
        }
        for c in self.children() {
            c.levels(acc);
        }
    }

    pub fn minimal(&self) -> String {
        self.minimal_styled(0)
    }
    pub fn full(&self) -> String {
        self.full_styled(0)
    }
    pub fn minimal_styled(&self, style: u8) -> String {
        let mut p = Printer { full: false, style, parens: 0, out: String::new() };
        p.expr(self);
        p.out
    }
    pub fn full_styled(&self, style: u8) -> String {
        let mut p = Printer { full: true, style, parens: 0, out: String::new() };
        p.expr(self);
        p.out
    }
    /// (grouping parentheses written by the minimal printer, by the full printer)
    pub fn paren_counts(&self) -> (usize, usize) {
        let mut a = Printer { full: false, style: 0, parens: 0, out: String::new() };
        a.expr(self);
        let mut b = Printer { full: true, style: 0, parens: 0, out: String::new() };
        b.expr(self);
        (a.parens, b.parens)
    }
}

#[derive(Clone, Copy, PartialEq)]
enum Pos {
    /// left operand of a binary operator of the given level
    BinLeft(u8),
    /// right operand of a (left-associative) binary operator of the given level
    BinRight(u8),
    /// operand of a prefix operator
    Prefix,
    /// the expression a postfix operator applies to
    PostfixBase,
    /// low / high of BETWEEN, pattern of LIKE
    PrefixLevelOperand,
}

fn needs_paren_minimal(child: &T, pos: Pos) -> bool {
    let cl = child.level();
    match pos {
        Pos::BinLeft(l) => cl < l,
        Pos::BinRight(l) => cl <= l,
        Pos::Prefix => cl < LEVEL_UNARY,
        Pos::PostfixBase => cl < LEVEL_POSTFIX || child.right_open(),
        Pos::PrefixLevelOperand => cl < LEVEL_UNARY,
    }
}

struct Printer {
    full: bool,
    style: u8,
    parens: usize,
    out: String,
}

impl Printer {
    fn tok(&mut self, s: &str) {
        if !self.out.is_empty() && !self.out.ends_with('(') && !self.out.ends_with('[') && s != ")" && s != "]" && s != "," {
            self.out.push(' ');
        }
        self.out.push_str(s);
    }

    fn operand(&mut self, child: &T, pos: Pos) {
        let wrap = if self.full { child.level() < LEVEL_PRIMARY } else { needs_paren_minimal(child, pos) };
        if wrap {
            self.parens += 1;
            self.tok("(");
            self.expr(child);
            self.tok(")");
        } else {
            self.expr(child);
        }
    }

    fn list(&mut self, items: &[T]) {
        for (i, it) in items.iter().enumerate() {
            if i > 0 {
                self.tok(",");
            }
            self.expr(it);
        }
    }

    fn expr(&mut self, t: &T) {
        let st = self.style;
        match t {
            T::Null => self.tok(&kw("NULL", st)),
            T::Bool(true) => self.tok(&kw("TRUE", st)),
            T::Bool(false) => self.tok(&kw("FALSE", st)),
            T::Int(n) => self.tok(&n.to_string()),
            T::Float(q) => self.tok(&format!("{:.2}", f64::from(*q) / 4.0)),
            T::Str(s) => self.tok(&quote_with(s, if st & 8 != 0 { '"' } else { '\'' })),
            T::Ident(s) => self.tok(s),
            T::Wildcard => self.tok("*"),
            T::Other(s) => self.tok(s),
            T::Bin(l, op, r) => {
                self.operand(l, Pos::BinLeft(op.level()));
                self.tok(op.text(st));
                self.operand(r, Pos::BinRight(op.level()));
            },
            T::Un(op, e) => {
                let s = match op {
                    UOp::Not => {
                        if st & 4 != 0 {
                            "!".to_string()
                        } else {
                            kw("NOT", st)
                        }
                    },
                    UOp::Neg => "-".to_string(),
                    UOp::BitNot => "~".to_string(),
                };
                self.tok(&s);
                self.operand(e, Pos::Prefix);
            },
            T::IsNull(e, neg) => {
                self.operand(e, Pos::PostfixBase);
                self.tok(&kw("IS", st));
                if *neg {
                    self.tok(&kw("NOT", st));
                }
                self.tok(&kw("NULL", st));
            },
            T::In(e, items, neg) => {
                self.operand(e, Pos::PostfixBase);
                if *neg {
                    self.tok(&kw("NOT", st));
                }
                self.tok(&kw("IN", st));
                self.tok("(");
                self.list(items);
                self.tok(")");
            },
            T::Between(e, lo, hi, neg) => {
                self.operand(e, Pos::PostfixBase);
                if *neg {
                    self.tok(&kw("NOT", st));
                }
                self.tok(&kw("BETWEEN", st));
                self.operand(lo, Pos::PrefixLevelOperand);
                self.tok(&kw("AND", st));
                self.operand(hi, Pos::PrefixLevelOperand);
            },
            T::Like(e, p, neg) => {
                self.operand(e, Pos::PostfixBase);
                if *neg {
                    self.tok(&kw("NOT", st));
                }
                self.tok(&kw("LIKE", st));
                self.operand(p, Pos::PrefixLevelOperand);
            },
            T::Qualified(e, name) => {
                self.operand(e, Pos::PostfixBase);
                self.tok(".");
                self.tok(name);
            },
            T::Call(name, args, distinct) => {
                self.tok(name);
                self.out.push('(');
                if *distinct {
                    self.tok(&kw("DISTINCT", st));
                }
                self.list(args);
                self.tok(")");
            },
            T::Case(operand, whens, els) => {
                self.tok(&kw("CASE", st));
                if let Some(o) = operand {
                    self.expr(o);
                }
                for (c, r) in whens {
                    self.tok(&kw("WHEN", st));
                    self.expr(c);
                    self.tok(&kw("THEN", st));
                    self.expr(r);
                }
                if let Some(e) = els {
                    self.tok(&kw("ELSE", st));
                    self.expr(e);
                }
                self.tok(&kw("END", st));
            },
            T::Array(items) => {
                self.tok("[");
                self.list(items);
                self.tok("]");
            },
            T::Tuple(items) => {
                self.tok("(");
                self.list(items);
                self.tok(")");
            },
        }
    }
}

/// Convert a parsed expression into the harness tree (spans dropped; the parser keeps no
/// parenthesis nodes).
pub fn from_expr(e: &Expr) -> T {
    let b = |x: &Expr| Box::new(from_expr(x));
    let v = |xs: &[Expr]| xs.iter().map(from_expr).collect::<Vec<_>>();
    match &e.kind {
        ExprKind::Literal(Literal::Null) => T::Null,
        ExprKind::Literal(Literal::Boolean(x)) => T::Bool(*x),
        ExprKind::Literal(Literal::Integer(n)) => T::Int(*n),
        ExprKind::Literal(Literal::Float(f)) => {
            let q = f * 4.0;
            if q >= 0.0 && q <= f64::from(u32::MAX) && q.fract() == 0.0 {
                T::Float(q as u32)
            } else {
                T::Other(format!("float:{f:?}"))
            }
        },
        ExprKind::Literal(Literal::String(s)) => T::Str(s.clone()),
        ExprKind::Ident(i) => T::Ident(i.name.clone()),
        ExprKind::Wildcard => T::Wildcard,
        ExprKind::Binary(l, op, r) => T::Bin(b(l), Op::from_ast(*op), b(r)),
        ExprKind::Unary(op, x) => T::Un(
            match op {
                UnaryOp::Not => UOp::Not,
                UnaryOp::Neg => UOp::Neg,
                UnaryOp::BitNot => UOp::BitNot,
            },
            b(x),
        ),
        ExprKind::IsNull { expr, negated } => T::IsNull(b(expr), *negated),
        ExprKind::In { expr, list: InList::Values(items), negated } => T::In(b(expr), v(items), *negated),
        ExprKind::In { .. } => T::Other("in-subquery".into()),
        ExprKind::Between { expr, low, high, negated } => T::Between(b(expr), b(low), b(high), *negated),
        ExprKind::Like { expr, pattern, negated } => T::Like(b(expr), b(pattern), *negated),
        ExprKind::Qualified(x, name) => T::Qualified(b(x), name.name.clone()),
        ExprKind::Call(c) => T::Call(c.name.name.clone(), v(&c.args), c.distinct),
        ExprKind::Case(c) => T::Case(
            c.operand.as_ref().map(|o| b(o)),
            c.when_clauses.iter().map(|w| (from_expr(&w.condition), from_expr(&w.result))).collect(),
            c.else_clause.as_ref().map(|o| b(o)),
        ),
        ExprKind::Array(items) => T::Array(v(items)),
        ExprKind::Tuple(items) => T::Tuple(v(items)),
        ExprKind::Subquery(_) => T::Other("subquery".into()),
        ExprKind::Exists(_) => T::Other("exists".into()),
        ExprKind::Cast(x, dt) => T::Call(format!("cast:{dt}"), vec![from_expr(x)], false),
        ExprKind::QualifiedWildcard(i) => T::Other(format!("{}.*", i.name)),
    }
}

/// Where the expression text is handed to the parser.
#[derive(Clone, Copy, Debug, PartialEq, Eq)]
pub enum Entry {
    /// `neumann_parser::parse_expr(text)` — expr.rs
    Expr,
    /// `neumann_parser::parse("SELECT <text>")` — parser.rs copy of the grammar, select item
    SelectItem,
    /// `neumann_parser::parse("SELECT * FROM t WHERE <text>")` — parser.rs, WHERE clause
    Where,
}

pub const ENTRIES: [Entry; 3] = [Entry::Expr, Entry::SelectItem, Entry::Where];

impl Entry {
    pub fn name(self) -> &'static str {
        match self {
            Entry::Expr => "parse_expr",
            Entry::SelectItem => "select-item",
            Entry::Where => "where",
        }
    }
}

/// Parse expression text through one entry point and return the harness tree.
pub fn parse_via(entry: Entry, text: &str) -> Result<T, String> {
    use neumann_parser::StatementKind;
    match entry {
        Entry::Expr => neumann_parser::parse_expr(text).map(|e| from_expr(&e)).map_err(|e| e.to_string()),
        Entry::SelectItem => {
            let src = format!("SELECT {text}");
            let st = neumann_parser::parse(&src).map_err(|e| e.to_string())?;
            match st.kind {
                StatementKind::Select(sel) if sel.columns.len() == 1 && sel.from.is_none() => {
                    if let Some(a) = &sel.columns[0].alias {
                        return Err(format!("select item got an alias {:?}", a.name));
                    }
                    Ok(from_expr(&sel.columns[0].expr))
                },
                _ => Err("not a single-column SELECT".to_string()),
            }
        },
        Entry::Where => {
            let src = format!("SELECT * FROM t WHERE {text}");
            let st = neumann_parser::parse(&src).map_err(|e| e.to_string())?;
            match st.kind {
                StatementKind::Select(sel) => match (&sel.where_clause, sel.group_by.is_empty(), &sel.limit) {
                    (Some(w), true, None) => Ok(from_expr(w)),
                    _ => Err("unexpected SELECT shape".to_string()),
                },
                _ => Err("not a SELECT".to_string()),
            }
        },
    }
}

/// The round-trip oracle for one tree: both printings must parse back to the tree through `entry`.
pub fn check_roundtrip(t: &T, style: u8, entry: Entry) -> Result<(), crate::OFail> {
    let min = t.minimal_styled(style);
    let full = t.full_styled(style);
    let pm = parse_via(entry, &min);
    let pf = parse_via(entry, &full);
    let en = entry.name();
    match (&pm, &pf) {
        (Ok(a), Ok(b)) => {
            if a != t {
                let kind = mismatch_kind(t, a);
                return Err(crate::OFail::new(
                    format!("precedence:minimal:{kind}:{en}"),
                    format!("minimal text `{min}` parsed ({en}) as `{}` but was printed from `{}`", a.full(), t.full()),
                ));
            }
            if b != t {
                let kind = mismatch_kind(t, b);
                return Err(crate::OFail::new(
                    format!("precedence:full:{kind}:{en}"),
                    format!("fully parenthesised text `{full}` parsed ({en}) as `{}`", b.full()),
                ));
            }
            if a != b {
                return Err(crate::OFail::new(format!("precedence:min-vs-full:{en}"), format!("`{min}` and `{full}` parse differently")));
            }
            Ok(())
        },
        (Err(e), _) => Err(crate::OFail::new(
            format!("precedence:minimal-rejected:{en}"),
            format!("minimal text `{min}` (tree `{full}`) was rejected by {en}: {e}"),
        )),
        (_, Err(e)) => {
            Err(crate::OFail::new(format!("precedence:full-rejected:{en}"), format!("fully parenthesised text `{full}` was rejected by {en}: {e}")))
        },
    }
}

/// Categorical description of the first (pre-order) difference between expected and parsed tree:
/// `L8-vs-L9` = an additive node was expected where a multiplicative one was built, etc.
fn mismatch_kind(want: &T, got: &T) -> String {
    fn tag(t: &T) -> String {
        match t {
            T::Bin(_, op, _) => format!("L{}", op.level()),
            T::Un(..) => "unary".into(),
            T::IsNull(..) => "isnull".into(),
            T::In(..) => "in".into(),
            T::Between(..) => "between".into(),
            T::Like(..) => "like".into(),
            T::Qualified(..) => "dot".into(),
            T::Call(..) => "call".into(),
            T::Case(..) => "case".into(),
            T::Array(..) => "array".into(),
            T::Tuple(..) => "tuple".into(),
            T::Str(_) => "string".into(),
            T::Ident(_) => "ident".into(),
            T::Other(_) => "other".into(),
            _ => "leaf".into(),
        }
    }
    fn go(w: &T, g: &T) -> Option<String> {
        if w == g {
            return None;
        }
        let same_top = std::mem::discriminant(w) == std::mem::discriminant(g)
            && match (w, g) {
                (T::Bin(_, a, _), T::Bin(_, b, _)) => a == b,
                (T::Un(a, _), T::Un(b, _)) => a == b,
                _ => true,
            };
        if !same_top {
            // unordered pair: the shrinker may flip which of the two operators ends up on top
            let (mut a, mut b) = (tag(w), tag(g));
            if a > b {
                std::mem::swap(&mut a, &mut b);
            }
            return Some(format!("{a}~{b}"));
        }
        let (cw, cg) = (w.children(), g.children());
        if cw.len() != cg.len() {
            return Some(format!("{}-arity", tag(w)));
        }
        for (a, b) in cw.iter().zip(cg.iter()) {
            if let Some(s) = go(a, b) {
                return Some(s);
            }
        }
        Some(format!("{}-attr", tag(w)))
    }
    go(want, got).unwrap_or_else(|| "equal".into())
}

/// Byte-driven tree builder for the `roundtrip` fuzz target (no `arbitrary` derive available offline).
pub struct Bytes<'a> {
    data: &'a [u8],
    pos: usize,
}

impl<'a> Bytes<'a> {
    pub fn new(data: &'a [u8]) -> Self {
        Self { data, pos: 0 }
    }
    pub fn next(&mut self) -> u8 {
        let b = self.data.get(self.pos).copied().unwrap_or(0);
        self.pos += 1;
        b
    }
    pub fn exhausted(&self) -> bool {
        self.pos >= self.data.len()
    }
}

pub const STR_POOL: &[&str] = &["", "a", "%x_", "it's", "a b", "x\\y", "q\"q", "AND", "-- c", "l1\nl2", "tab\t", "/*", "é"];

pub fn build(b: &mut Bytes, depth: usize) -> T {
    let leaf = |b: &mut Bytes| -> T {
        let k = b.next();
        match k % 8 {
            0 => T::Int(i64::from(b.next())),
            1 => T::Float(u32::from(b.next())),
            2 => T::Str(STR_POOL[b.next() as usize % STR_POOL.len()].to_string()),
            3 => T::Bool(b.next() & 1 == 1),
            4 => T::Null,
            5 => T::Ident(CTX_IDENTS[b.next() as usize % CTX_IDENTS.len()].to_string()),
            _ => T::Ident(IDENTS[b.next() as usize % IDENTS.len()].to_string()),
        }
    };
    if depth == 0 || b.exhausted() {
        return leaf(b);
    }
    let k = b.next();
    let d = depth - 1;
    let few = |b: &mut Bytes, lo: usize, hi: usize, d: usize| -> Vec<T> {
        let n = lo + (b.next() as usize) % (hi - lo + 1);
        (0..n).map(|_| build(b, d)).collect()
    };
    // byte 0 decodes to a leaf so that shrinking the byte program shrinks the tree
    match k % 32 {
        0 => leaf(b),
        1..=11 => {
            let op = ALL_OPS[b.next() as usize % ALL_OPS.len()];
            T::Bin(Box::new(build(b, d)), op, Box::new(build(b, d)))
        },
        12..=15 => {
            let op = [UOp::Not, UOp::Neg, UOp::BitNot][b.next() as usize % 3];
            T::Un(op, Box::new(build(b, d)))
        },
        16 | 17 => T::IsNull(Box::new(build(b, d)), b.next() & 1 == 1),
        18 | 19 => {
            let neg = b.next() & 1 == 1;
            T::In(Box::new(build(b, d)), few(b, 0, 3, d), neg)
        },
        20 | 21 => T::Between(Box::new(build(b, d)), Box::new(build(b, d)), Box::new(build(b, d)), b.next() & 1 == 1),
        22 | 23 => T::Like(Box::new(build(b, d)), Box::new(build(b, d)), b.next() & 1 == 1),
        24 => T::Qualified(Box::new(build(b, d)), IDENTS[b.next() as usize % IDENTS.len()].to_string()),
        25 => {
            let name = FUNCS[b.next() as usize % FUNCS.len()].to_string();
            T::Call(name, few(b, 0, 3, d), false)
        },
        26 => {
            let name = AGGS[b.next() as usize % AGGS.len()].to_string();
            let distinct = b.next() & 1 == 1;
            if b.next() % 4 == 0 {
                T::Call(name, vec![T::Wildcard], false)
            } else {
                T::Call(name, vec![build(b, d)], distinct)
            }
        },
        27 | 28 => {
            let operand = if b.next() & 1 == 1 { Some(Box::new(build(b, d))) } else { None };
            let n = 1 + (b.next() as usize) % 2;
            let whens = (0..n).map(|_| (build(b, d), build(b, d))).collect();
            let els = if b.next() & 1 == 1 { Some(Box::new(build(b, d))) } else { None };
            T::Case(operand, whens, els)
        },
        29 => T::Array(few(b, 0, 3, d)),
        30 => {
            let mut items = few(b, 0, 3, d);
            if items.len() == 1 {
                items.push(build(b, d));
            }
            T::Tuple(items)
        },
        _ => leaf(b),
    }
}
