//! C15 — library part shared by the harness binary (`nv_c15`) and the cargo-fuzz targets in
//! `/verif/fuzz_c15`.
//!
//! * `oracle`  totality / determinism / error-span oracle over `tokenize`, `parse`, `parse_all`,
//!             `parse_expr` for one input string
//! * `tree`    the harness's own expression tree, its two printers (minimal / full parentheses,
//!             implementing the *documented* precedence table) and the conversion of a parsed
//!             `neumann_parser::Expr` back into that tree (spans erased)
//! * `targets` the fuzz-target bodies (`lex`, `stmt`, `expr`, `roundtrip`), callable on a byte slice;
//!             the quick tier replays the committed seed corpus through exactly these functions
//!
//! Nothing here depends on the harness engine, so the fuzz project builds only the parser.

pub mod oracle;
pub mod targets;
pub mod tree;

/// A failed expectation: categorical signature + human-readable detail.
#[derive(Clone, Debug)]
pub struct OFail {
    pub sig: String,
    pub msg: String,
}

impl OFail {
    pub fn new(sig: impl Into<String>, msg: impl Into<String>) -> Self {
        Self { sig: sig.into(), msg: msg.into() }
    }
}

/// Statements / expressions harvested from /repo docs and tests (see fuzz_c15/harvest_seeds.py).
pub const SEEDS: &str = include_str!("seeds.txt");

pub fn seeds() -> Vec<&'static str> {
    SEEDS.lines().filter(|l| !l.is_empty()).collect()
}

/// Every keyword of the language (generator data for token soups; copied from the keyword table
/// of neumann_parser/src/token.rs — `self_check` verifies each one still lexes as a keyword).
pub const KEYWORDS: &[&str] = &[
    "SELECT", "FROM", "WHERE", "AND", "OR", "NOT", "IN", "IS", "LIKE", "BETWEEN", "CASE", "WHEN", "THEN", "ELSE",
    "END", "AS", "ON", "JOIN", "LEFT", "RIGHT", "INNER", "OUTER", "FULL", "CROSS", "NATURAL", "USING", "GROUP",
    "BY", "HAVING", "ORDER", "ASC", "DESC", "NULLS", "FIRST", "LAST", "LIMIT", "OFFSET", "DISTINCT", "ALL",
    "UNION", "INTERSECT", "EXCEPT", "EXISTS", "CAST", "ANY", "INSERT", "INTO", "VALUES", "UPDATE", "SET",
    "DELETE", "CREATE", "TABLE", "INDEX", "DROP", "ALTER", "ADD", "COLUMN", "PRIMARY", "KEY", "FOREIGN",
    "REFERENCES", "UNIQUE", "CHECK", "DEFAULT", "CONSTRAINT", "CASCADE", "RESTRICT", "IF", "SHOW", "TABLES",
    "DESCRIBE", "EMBEDDINGS", "TRUE", "FALSE", "NULL", "INT", "INTEGER", "BIGINT", "SMALLINT", "FLOAT", "DOUBLE",
    "REAL", "DECIMAL", "NUMERIC", "VARCHAR", "CHAR", "TEXT", "BOOLEAN", "DATE", "TIME", "TIMESTAMP", "BLOB",
    "COUNT", "SUM", "AVG", "MIN", "MAX", "NODE", "EDGE", "NEIGHBORS", "PATH", "GET", "LIST", "STORE", "OUTGOING",
    "INCOMING", "BOTH", "SHORTEST", "PROPERTIES", "LABEL", "VERTEX", "VERTICES", "EDGES", "EMBED", "SIMILAR",
    "VECTOR", "EMBEDDING", "DIMENSION", "DISTANCE", "COSINE", "EUCLIDEAN", "DOT_PRODUCT", "DOTPRODUCT", "BUILD",
    "BATCH", "FIND", "WITH", "RETURN", "MATCH", "ENTITY", "CONNECTED", "ROWS", "VAULT", "GRANT", "REVOKE", "ROTATE",
    "CACHE", "INIT", "STATS", "CLEAR", "EVICT", "PUT", "SEMANTIC", "THRESHOLD", "CHECKPOINT", "CHECKPOINTS",
    "ROLLBACK", "CHAIN", "BEGIN", "COMMIT", "TRANSACTION", "HISTORY", "DRIFT", "CODEBOOK", "GLOBAL", "LOCAL",
    "ANALYZE", "HEIGHT", "TRANSITIONS", "TIP", "BLOCK", "CLUSTER", "CONNECT", "DISCONNECT", "STATUS", "NODES",
    "LEADER", "BLOBS", "INFO", "LINK", "UNLINK", "LINKS", "TAG", "UNTAG", "VERIFY", "GC", "REPAIR", "TO", "FOR",
    "META", "ARTIFACTS", "PAGERANK", "BETWEENNESS", "CLOSENESS", "EIGENVECTOR", "CENTRALITY", "LOUVAIN",
    "COMMUNITIES", "PROPAGATION", "DAMPING", "TOLERANCE", "ITERATIONS", "SAMPLING", "RESOLUTION", "PASSES",
    "WEIGHTED", "VARIABLE", "HOPS", "DEPTH", "SKIP", "TOTAL", "PATTERN", "AGGREGATE", "PROPERTY", "TYPE", "GRAPH",
];

/// Non-keyword lexemes for token soups: punctuation, operators, literals, identifiers, comment
/// openers, quote characters, non-ASCII.
pub const PUNCT: &[&str] = &[
    "(", ")", "[", "]", "{", "}", ",", ".", ";", ":", "::", "*", "+", "-", "/", "%", "=", "!=", "<>", "<", "<=", ">",
    ">=", "<<", ">>", "&", "&&", "|", "||", "^", "~", "!", "->", "=>", "?", "@", "#", "$", "--", "/*", "*/", "'", "\"",
    "\\", "\n", "\t", "0", "1", "42", "3.5", "1e3", "1e", "9223372036854775808", "1.", ".5", "'a'", "'it''s'",
    "\"q\"", "'a\\'b'", "x", "t1", "_a", "users", "é", "日本", "\u{0}", "\u{feff}", "\u{2028}", "x.y", "t.*", "-1",
    "'%a_'", "NULL", "null", "Select", "0x1F", "1_000", "''", "'\\", "e", "E5",
];

/// Startup self-check of the generator data (keywords lex as keywords, soup identifiers as identifiers).
pub fn self_check() -> Result<(), String> {
    for k in KEYWORDS {
        let t = neumann_parser::tokenize(k);
        if t.len() != 2 || !t[0].is_keyword() {
            return Err(format!("generator data: {k:?} does not lex as one keyword token: {t:?}"));
        }
    }
    for id in tree::IDENTS.iter().chain(tree::FUNCS.iter()) {
        let t = neumann_parser::tokenize(id);
        if t.len() != 2 || !matches!(t[0].kind, neumann_parser::TokenKind::Ident(_)) {
            return Err(format!("generator data: {id:?} does not lex as one identifier: {t:?}"));
        }
    }
    for id in tree::CTX_IDENTS {
        let t = neumann_parser::tokenize(id);
        if t.len() != 2 || !t[0].kind.is_contextual_keyword() {
            return Err(format!("generator data: {id:?} is not a contextual keyword: {t:?}"));
        }
    }
    Ok(())
}
