//! Part `nan_order`: ORDER BY over a FLOAT column that holds NaN (and infinities, -0.0).
//!
//! The rows go in through the engine, the statement arrives as text. A comparator that calls NaN
//! "equal" to every number is no total order; std's sort is allowed to panic on one (and does,
//! opportunistically, from a few dozen elements on). Oracle: no panic, the result is a permutation
//! of the table, and the non-NaN keys come back in the requested order.

use nv_engine::{CaseCtx, Fail, Tier};
use proptest::prelude::*;
use query_router::{QueryResult, QueryRouter};
use relational_engine::{Column, ColumnType, Schema, Value};
use serde::{Deserialize, Serialize};
use std::collections::HashMap;

#[derive(Clone, Debug, Serialize, Deserialize)]
pub struct NanCase {
    /// per row: 0 = NaN, 1 = +inf, 2 = -inf, 3 = -0.0, otherwise a finite value derived from it
    pub rows: Vec<u8>,
    pub desc: bool,
}

pub fn strategy(_t: Tier) -> impl Strategy<Value = NanCase> {
    let cell = prop_oneof![3 => Just(0u8), 1 => 1u8..4, 6 => 4u8..=255];
    (prop::collection::vec(cell, 24..160), any::<bool>()).prop_map(|(rows, desc)| NanCase { rows, desc })
}

fn value_of(code: u8) -> f64 {
    match code {
        0 => f64::NAN,
        1 => f64::INFINITY,
        2 => f64::NEG_INFINITY,
        3 => -0.0,
        c => (f64::from(c) - 128.0) / 4.0,
    }
}

pub fn check(c: &NanCase, ctx: &mut CaseCtx) -> Result<(), Fail> {
    let router = QueryRouter::new();
    let rel = router.relational();
    rel.create_table("f", Schema::new(vec![Column::new("k", ColumnType::Int), Column::new("x", ColumnType::Float)]))
        .map_err(|e| Fail::new("harness", e.to_string()))?;
    for (i, code) in c.rows.iter().enumerate() {
        let mut m = HashMap::new();
        m.insert("k".to_string(), Value::Int(i as i64));
        m.insert("x".to_string(), Value::Float(value_of(*code)));
        rel.insert("f", m).map_err(|e| Fail::new("harness", e.to_string()))?;
    }
    let nans = c.rows.iter().filter(|r| **r == 0).count();
    if nans > 0 && nans < c.rows.len() {
        ctx.label("ORDER BY over a column with NaN and numbers");
        ctx.set_nontrivial();
    }
    let text = format!("SELECT k, x FROM f ORDER BY x{}", if c.desc { " DESC" } else { "" });
    let rows = match router.execute_parsed(&text) {
        Ok(QueryResult::Rows(r)) => r,
        other => return ctx.fail("nan-order:unexpected-result", format!("`{text}` over {} rows gives {other:?}", c.rows.len())),
    };
    if rows.len() != c.rows.len() {
        return ctx.fail("nan-order:row-count", format!("`{text}`: {} rows returned, the table has {}", rows.len(), c.rows.len()));
    }
    let mut seen = vec![false; c.rows.len()];
    let mut keys: Vec<f64> = Vec::new();
    for r in &rows {
        let k = r.values.iter().find(|(n, _)| n == "k").and_then(|(_, v)| if let Value::Int(k) = v { Some(*k as usize) } else { None });
        let x = r.values.iter().find(|(n, _)| n == "x").and_then(|(_, v)| if let Value::Float(x) = v { Some(*x) } else { None });
        let (Some(k), Some(x)) = (k, x) else {
            return ctx.fail("nan-order:row-shape", format!("`{text}` returned a row without k / x: {r:?}"));
        };
        if k >= seen.len() || seen[k] {
            return ctx.fail("nan-order:not-a-permutation", format!("`{text}` returned row k={k} twice or an unknown row"));
        }
        seen[k] = true;
        keys.push(x);
    }
    // the numbers among the keys are in the requested order (where the NaNs go is the product's choice)
    let nums: Vec<f64> = keys.iter().copied().filter(|x| !x.is_nan()).collect();
    let ordered = nums.windows(2).all(|w| if c.desc { w[0] >= w[1] } else { w[0] <= w[1] });
    if !ordered {
        return ctx.fail("nan-order:numbers-out-of-order", format!("`{text}`: the non-NaN keys are not sorted: {nums:?}"));
    }
    Ok(())
}
