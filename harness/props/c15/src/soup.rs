//! Part `soup`: generated strings for the totality / determinism / error-span oracle —
//! token soups over the keyword list and punctuation, token-level mutations of harvested valid
//! statements, splices of two statements, arbitrary unicode.

use nv_c15::{oracle, seeds, KEYWORDS, PUNCT};
use nv_engine::{pick, CaseCtx, Fail, Tier};
use proptest::prelude::*;
use serde::{Deserialize, Serialize};

#[derive(Clone, Debug, Serialize, Deserialize)]
pub enum SoupCase {
    /// lexemes picked from KEYWORDS / PUNCT joined by a separator style; `lead` (if any) puts a
    /// statement-leading keyword first so the soup gets past the statement dispatch
    Soup { lead: Option<u16>, toks: Vec<(bool, u16)>, sep: u8 },
    /// word-level edits (position, kind, lexeme) applied to seed statement `base`
    Mutated { base: u16, edits: Vec<(u16, u8, u16)> },
    /// prefix of seed `a` + suffix of seed `b`
    Spliced { a: u16, b: u16, cut_a: u16, cut_b: u16 },
    Unicode(Vec<char>),
}

/// Keywords `Parser::parse_statement` dispatches on (plus multi-word openers).
const LEADS: &[&str] = &[
    "SELECT", "SELECT * FROM", "SELECT DISTINCT", "INSERT INTO", "UPDATE", "DELETE FROM", "CREATE TABLE", "CREATE INDEX", "DROP",
    "SHOW", "DESCRIBE", "COUNT", "NODE", "NODE CREATE", "EDGE", "EDGE CREATE", "NEIGHBORS", "PATH", "EMBED", "EMBED STORE", "SIMILAR", "FIND",
    "FIND NODE", "ENTITY", "ENTITY CREATE", "VAULT", "CACHE", "BLOB", "BLOBS", "CHECKPOINT", "CHECKPOINTS", "ROLLBACK", "CHAIN", "BEGIN",
    "COMMIT", "ANALYZE", "CLUSTER", "GRAPH", "GRAPH PATTERN MATCH", "CONSTRAINT", "BATCH", "AGGREGATE", "SELECT x WHERE", "SELECT CASE",
];

fn lexeme(kw: bool, i: u16) -> &'static str {
    if kw {
        KEYWORDS[pick(i, KEYWORDS.len())]
    } else {
        PUNCT[pick(i, PUNCT.len())]
    }
}

pub fn text_of(c: &SoupCase) -> String {
    let seeds = seeds();
    match c {
        SoupCase::Soup { lead, toks, sep } => {
            let mut s = String::new();
            if let Some(l) = lead {
                s.push_str(LEADS[pick(*l, LEADS.len())]);
                s.push(' ');
            }
            for (k, (kw, i)) in toks.iter().enumerate() {
                if k > 0 {
                    match sep % 4 {
                        0 => s.push(' '),
                        1 => {
                            if k % 3 == 0 {
                                s.push('\n')
                            } else {
                                s.push(' ')
                            }
                        },
                        2 => {
                            // no separator between punctuation, a blank between words
                            let prev_word = s.chars().last().is_some_and(|c| c.is_alphanumeric() || c == '_');
                            let next_word = lexeme(*kw, *i).chars().next().is_some_and(|c| c.is_alphanumeric() || c == '_');
                            if prev_word && next_word {
                                s.push(' ');
                            }
                        },
                        _ => s.push_str("  "),
                    }
                }
                let l = lexeme(*kw, *i);
                if sep & 4 != 0 && *kw {
                    s.push_str(&l.to_lowercase());
                } else {
                    s.push_str(l);
                }
            }
            s
        },
        SoupCase::Mutated { base, edits } => {
            let mut words: Vec<String> = seeds[pick(*base, seeds.len())].split(' ').map(str::to_string).collect();
            for (pos, kind, lx) in edits {
                if words.is_empty() {
                    words.push(String::new());
                }
                let p = pick(*pos, words.len());
                let l = lexeme(lx & 1 == 0, *lx).to_string();
                match kind % 9 {
                    0 => {
                        words.remove(p);
                    },
                    1 => {
                        let w = words[p].clone();
                        words.insert(p, w);
                    },
                    2 => words[p] = l,
                    3 => words.insert(p, l),
                    4 => {
                        if p + 1 < words.len() {
                            words.swap(p, p + 1);
                        }
                    },
                    5 => words.truncate(p + 1),
                    6 => {
                        words[p] = if words[p].chars().any(|c| c.is_lowercase()) { words[p].to_uppercase() } else { words[p].to_lowercase() }
                    },
                    7 => {
                        // glue the lexeme into the middle of the word
                        let w = &words[p];
                        let mid = w.char_indices().nth(w.chars().count() / 2).map_or(w.len(), |(i, _)| i);
                        let mut n = w[..mid].to_string();
                        n.push_str(&l);
                        n.push_str(&w[mid..]);
                        words[p] = n;
                    },
                    _ => {
                        // drop the last character of the word (unterminated strings, cut numbers)
                        let mut w = words[p].clone();
                        w.pop();
                        words[p] = w;
                    },
                }
            }
            words.join(" ")
        },
        SoupCase::Spliced { a, b, cut_a, cut_b } => {
            let sa = seeds[pick(*a, seeds.len())];
            let sb = seeds[pick(*b, seeds.len())];
            // seeds are ASCII (harvest script), any byte offset is a boundary
            let ca = pick(*cut_a, sa.len() + 1);
            let cb = pick(*cut_b, sb.len() + 1);
            format!("{}{}", &sa[..ca], &sb[cb..])
        },
        SoupCase::Unicode(cs) => cs.iter().collect(),
    }
}

fn biased_char() -> impl Strategy<Value = char> {
    prop_oneof![
        4 => any::<char>(),
        3 => prop::sample::select(vec!['\'', '"', '\\', '-', '/', '*', '(', ')', '[', ']', '.', ',', ';', ' ', '\n', '\t', '\r', '0', '9', 'e', 'E', '_', 'a', 'Z']),
        2 => prop::sample::select(vec!['\u{0}', '\u{7f}', '\u{80}', '\u{a0}', '\u{2028}', '\u{3000}', '\u{feff}', '\u{ff10}', '\u{661}', 'ß', 'İ', 'ſ', 'K', '\u{10ffff}', '\u{1f600}', 'é']),
        1 => (0x20u8..0x7f).prop_map(|b| b as char),
    ]
}

pub fn strategy(_t: Tier) -> impl Strategy<Value = SoupCase> {
    prop_oneof![
        5 => (prop::option::weighted(0.6, any::<u16>()), prop::collection::vec((prop::bool::weighted(0.55), any::<u16>()), 1..24), 0u8..8)
            .prop_map(|(lead, toks, sep)| SoupCase::Soup { lead, toks, sep }),
        7 => (any::<u16>(), prop::collection::vec((any::<u16>(), 0u8..9, any::<u16>()), 1..4)).prop_map(|(base, edits)| SoupCase::Mutated { base, edits }),
        2 => (any::<u16>(), any::<u16>(), any::<u16>(), any::<u16>()).prop_map(|(a, b, cut_a, cut_b)| SoupCase::Spliced { a, b, cut_a, cut_b }),
        3 => prop::collection::vec(biased_char(), 0..48).prop_map(SoupCase::Unicode),
    ]
}

pub fn check(c: &SoupCase, ctx: &mut CaseCtx) -> Result<(), Fail> {
    let text = text_of(c);
    ctx.label(match c {
        SoupCase::Soup { .. } => "gen:soup",
        SoupCase::Mutated { .. } => "gen:mutated",
        SoupCase::Spliced { .. } => "gen:spliced",
        SoupCase::Unicode(_) => "gen:unicode",
    });
    match oracle::check(&text, oracle::ALL) {
        Ok(info) => {
            classify(&info, ctx);
        },
        Err(f) => return ctx.fail(f.sig, f.msg),
    }
    // The same text through the router's two entry points (one case in four): an answer or an
    // error, never a panic (a panic inside a case is reported by the runner as `panic:...`).
    if nv_engine::fnv64(text.as_bytes()) % 4 == 0 {
        ROUTER.with(|r| {
            let r = r.borrow();
            let _ = r.execute(&text);
            let _ = r.execute_parsed(&text);
        });
        ctx.label("router:execute+execute_parsed");
    }
    Ok(())
}

thread_local! {
    // one router per worker thread: the statements that get through only create and drop small
    // tables, nodes and embeddings; no blob store, vault, cache, chain or cluster is configured
    static ROUTER: std::cell::RefCell<query_router::QueryRouter> = std::cell::RefCell::new(query_router::QueryRouter::new());
}

pub fn classify(info: &oracle::Info, ctx: &mut CaseCtx) {
    if info.keyword_tokens >= 1 {
        // the input got past the lexer with something the statement parser dispatches on
        ctx.set_nontrivial();
        ctx.label("keyword-tokens>=1");
    }
    if info.error_tokens > 0 {
        ctx.label("lexer-error-token");
    }
    match info.parse_ok {
        Some(true) => ctx.label(format!("parse:ok:{}", info.parse_kind.clone().unwrap_or_default())),
        Some(false) => ctx.label("parse:err"),
        None => {},
    }
    if let Some(n) = info.parse_all_stmts {
        ctx.label(if n >= 2 { "parse_all:ok:>=2-stmts" } else { "parse_all:ok" });
    }
    match info.expr_ok {
        Some(true) => ctx.label("parse_expr:ok"),
        Some(false) => ctx.label("parse_expr:err"),
        None => {},
    }
    if info.expr_diff_compared {
        ctx.label("expr-parsers-compared");
    }
    for k in &info.err_kinds {
        ctx.label(format!("errkind:{k}"));
    }
}
