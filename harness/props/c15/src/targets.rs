//! Bodies of the libFuzzer targets. The cargo-fuzz binaries in /verif/fuzz_c15 call `run` and
//! panic on `Err`; the harness replays the seed corpus (and any crash artifact) through the same
//! function.

use crate::oracle::{self, Info};
use crate::tree;
use crate::OFail;

pub const TARGETS: [&str; 4] = ["lex", "stmt", "expr", "roundtrip"];

#[derive(Clone, Debug, Default)]
pub struct TargetInfo {
    pub info: Info,
    /// roundtrip target: (distinct precedence levels, grouping parens minimal, grouping parens full, tree size)
    pub tree: Option<(u32, usize, usize, usize)>,
}

/// Bytes -> text exactly as the fuzz targets see it: valid UTF-8 unchanged, otherwise lossy.
pub fn text_of(data: &[u8]) -> String {
    String::from_utf8_lossy(data).into_owned()
}

pub fn run(target: &str, data: &[u8]) -> Result<TargetInfo, OFail> {
    match target {
        "lex" => Ok(TargetInfo { info: oracle::check(&text_of(data), oracle::LEX)?, tree: None }),
        "stmt" => Ok(TargetInfo {
            info: oracle::check(&text_of(data), oracle::LEX | oracle::PARSE | oracle::PARSE_ALL | oracle::DIFF)?,
            tree: None,
        }),
        "expr" => Ok(TargetInfo { info: oracle::check(&text_of(data), oracle::LEX | oracle::EXPR | oracle::DIFF)?, tree: None }),
        "roundtrip" => {
            let mut b = tree::Bytes::new(data);
            let style = b.next() & 15;
            let entry = tree::ENTRIES[b.next() as usize % 3];
            // 7 operator levels + leaf = depth 8
            let t = tree::build(&mut b, 7);
            tree::check_roundtrip(&t, style, entry)?;
            let mut lv = 0u16;
            t.levels(&mut lv);
            let (pm, pf) = t.paren_counts();
            Ok(TargetInfo { info: Info::default(), tree: Some((lv.count_ones(), pm, pf, t.size())) })
        },
        other => Err(OFail::new("harness:unknown-target", format!("unknown fuzz target {other:?}"))),
    }
}
