//! Part `nest`: adversarial nesting. Each probe runs in a CHILD process (`nv_c15 child nest-probe …`) so
//! that stack exhaustion (SIGSEGV / abort) is observed as an outcome instead of killing the harness.
//!
//! One child handles one (shape, entry point, stack) combination and walks a ladder of nesting depths,
//! printing `START n` before and `DONE n …` after each step; a child that dies tells the parent which n
//! killed it. Two stacks are probed: the main thread of a fresh process (8 MiB, the most generous
//! stack a caller has by default) and a `std::thread` with the 2 MiB default (what a tokio worker or
//! `spawn_blocking` thread — i.e. the server's query path — has). A child exceeding 20 s is
//! inconclusive: counted, never reported as a violation.

use nv_c15::oracle;
use nv_engine::runner::write_replay;
use nv_engine::{CustomPart, Fail, Findings, PartStats, RunCfg, Tier, Violation};
use serde_json::{json, Value};
use std::io::Read;
use std::process::{Command, Stdio};
use std::time::{Duration, Instant};

pub const LADDER: [usize; 12] = [10, 63, 64, 65, 200, 1000, 2000, 4000, 8000, 16000, 32000, 100000];
const CHILD_BUDGET: Duration = Duration::from_secs(20);
/// The property quantifies over inputs "up to a few kilobytes"; the design asks for nesting up to
/// 100 000. A crash is a violation when the input is at most this long; a crash that needs a longer
/// input is recorded in the evidence (`crash-beyond-domain`) but not reported.
pub const DOMAIN_BYTES: usize = 32 * 1024;

#[derive(Clone, Copy)]
pub struct Shape {
    pub name: &'static str,
    /// "expr-nesting" | "subquery-nesting" | "chain"
    pub class: &'static str,
    pub pre: &'static str,
    pub unit_open: &'static str,
    pub core: &'static str,
    pub unit_close: &'static str,
    pub post: &'static str,
    /// usable as a stand-alone expression (parse_expr) when wrapped without `stmt_prefix`
    pub expr: bool,
}

/// Text = stmt_prefix? + pre + unit_open×n + core + unit_close×n + post
pub const SHAPES: &[Shape] = &[
    Shape { name: "paren", class: "expr-nesting", pre: "", unit_open: "(", core: "1", unit_close: ")", post: "", expr: true },
    Shape { name: "not", class: "expr-nesting", pre: "", unit_open: "NOT ", core: "x", unit_close: "", post: "", expr: true },
    Shape { name: "neg", class: "expr-nesting", pre: "", unit_open: "- ", core: "1", unit_close: "", post: "", expr: true },
    Shape { name: "bitnot", class: "expr-nesting", pre: "", unit_open: "~", core: "1", unit_close: "", post: "", expr: true },
    Shape { name: "call", class: "expr-nesting", pre: "", unit_open: "f(", core: "1", unit_close: ")", post: "", expr: true },
    Shape { name: "array", class: "expr-nesting", pre: "", unit_open: "[", core: "", unit_close: "]", post: "", expr: true },
    Shape { name: "case-when", class: "expr-nesting", pre: "", unit_open: "CASE WHEN ", core: "1", unit_close: " THEN 1 END", post: "", expr: true },
    Shape { name: "case-operand", class: "expr-nesting", pre: "", unit_open: "CASE ", core: "x", unit_close: " WHEN 1 THEN 1 END", post: "", expr: true },
    Shape { name: "between-low", class: "expr-nesting", pre: "", unit_open: "a BETWEEN ", core: "1", unit_close: " AND 2", post: "", expr: true },
    Shape { name: "like-pattern", class: "expr-nesting", pre: "", unit_open: "a LIKE ", core: "b", unit_close: "", post: "", expr: true },
    Shape { name: "in-list", class: "expr-nesting", pre: "", unit_open: "a IN (", core: "1", unit_close: ")", post: "", expr: true },
    Shape { name: "unclosed-paren", class: "expr-nesting", pre: "", unit_open: "(", core: "", unit_close: "", post: "", expr: true },
    Shape { name: "binary-right", class: "expr-nesting", pre: "", unit_open: "1 + (", core: "1", unit_close: ")", post: "", expr: true },
    Shape { name: "from-subquery", class: "subquery-nesting", pre: "SELECT * FROM ", unit_open: "(SELECT * FROM ", core: "t", unit_close: ")", post: "", expr: false },
    Shape { name: "in-subquery", class: "subquery-nesting", pre: "SELECT 1 WHERE ", unit_open: "x IN (SELECT 1 WHERE ", core: "1 = 1", unit_close: ")", post: "", expr: false },
    Shape { name: "exists", class: "subquery-nesting", pre: "SELECT 1 WHERE ", unit_open: "EXISTS (SELECT 1 WHERE ", core: "1 = 1", unit_close: ")", post: "", expr: false },
    Shape { name: "chain-add", class: "chain", pre: "1", unit_open: " + 1", core: "", unit_close: "", post: "", expr: true },
    Shape { name: "chain-and", class: "chain", pre: "a", unit_open: " AND a", core: "", unit_close: "", post: "", expr: true },
    Shape { name: "chain-dot", class: "chain", pre: "a", unit_open: ".b", core: "", unit_close: "", post: "", expr: true },
    Shape { name: "chain-isnull", class: "chain", pre: "a", unit_open: " IS NULL", core: "", unit_close: "", post: "", expr: true },
];

pub const APIS: [&str; 4] = ["parse_expr", "parse", "parse_all", "tokenize"];
pub const STACKS: [&str; 2] = ["main8m", "thread2m"];

pub fn build_text(shape: &Shape, api: &str, n: usize) -> String {
    let mut s = String::with_capacity(32 + n * (shape.unit_open.len() + shape.unit_close.len()));
    if api != "parse_expr" && shape.expr {
        // statement context: the same nesting inside a SELECT item / WHERE clause
        s.push_str("SELECT ");
    }
    s.push_str(shape.pre);
    for _ in 0..n {
        s.push_str(shape.unit_open);
    }
    s.push_str(shape.core);
    for _ in 0..n {
        s.push_str(shape.unit_close);
    }
    s.push_str(shape.post);
    s
}

fn api_flags(api: &str) -> u8 {
    match api {
        "parse_expr" => oracle::EXPR,
        "parse" => oracle::PARSE,
        "parse_all" => oracle::PARSE_ALL,
        _ => oracle::LEX,
    }
}

/// Child entry point: `nest-probe <shape> <api> <stack> <n>…`
pub fn child_main(args: &[String]) -> i32 {
    if args.len() < 4 {
        eprintln!("usage: nest-probe <shape> <api> <stack> <n>…");
        return 2;
    }
    let Some(shape) = SHAPES.iter().find(|s| s.name == args[0]).copied() else {
        eprintln!("unknown shape");
        return 2;
    };
    let api = args[1].clone();
    let stack = args[2].clone();
    let ns: Vec<usize> = args[3..].iter().filter_map(|a| a.parse().ok()).collect();
    let work = move || -> i32 {
        use std::io::Write;
        for n in ns {
            println!("START {n}");
            let _ = std::io::stdout().flush();
            let text = build_text(&shape, &api, n);
            // single call, no repeat: the determinism comparison of a 100 000-deep tree would recurse
            // in the harness itself; the result is dropped here, as every caller has to
            let r = oracle::check_once(&text, api_flags(&api));
            match r {
                Ok(outcome) => println!("DONE {n} len={} {outcome}", text.len()),
                Err(f) => {
                    println!("FAIL {n} {} :: {}", f.sig, f.msg);
                    let _ = std::io::stdout().flush();
                    return 3;
                },
            }
            let _ = std::io::stdout().flush();
        }
        0
    };
    if stack == "thread2m" {
        // std's default thread stack (RUST_MIN_STACK unset): 2 MiB
        match std::thread::Builder::new().name("probe".into()).spawn(work) {
            Ok(h) => h.join().unwrap_or(4),
            Err(_) => 2,
        }
    } else {
        work()
    }
}

pub struct ChildOut {
    pub code: Option<i32>,
    pub signal: Option<i32>,
    pub stdout: String,
    pub stderr: String,
    pub timed_out: bool,
}

/// `<current exe> child <name> args…` with a wall-clock budget (crashkit::run_child has none).
pub fn run_child_budget(name: &str, args: &[String], budget: Duration) -> std::io::Result<ChildOut> {
    use std::os::unix::process::ExitStatusExt;
    let exe = std::env::current_exe()?;
    let mut child = Command::new(exe)
        .arg("child")
        .arg(name)
        .args(args)
        .env_remove("RUST_MIN_STACK")
        .stdin(Stdio::null())
        .stdout(Stdio::piped())
        .stderr(Stdio::piped())
        .spawn()?;
    let mut so = child.stdout.take().expect("piped");
    let mut se = child.stderr.take().expect("piped");
    let t_out = std::thread::spawn(move || {
        let mut s = String::new();
        let _ = so.read_to_string(&mut s);
        s
    });
    let t_err = std::thread::spawn(move || {
        let mut s = String::new();
        let _ = se.read_to_string(&mut s);
        s
    });
    let t0 = Instant::now();
    let mut timed_out = false;
    let status = loop {
        if let Some(st) = child.try_wait()? {
            break st;
        }
        if t0.elapsed() > budget {
            timed_out = true;
            let _ = child.kill();
            break child.wait()?;
        }
        std::thread::sleep(Duration::from_millis(5));
    };
    Ok(ChildOut {
        code: status.code(),
        signal: status.signal(),
        stdout: t_out.join().unwrap_or_default(),
        stderr: t_err.join().unwrap_or_default(),
        timed_out,
    })
}

#[derive(Debug)]
pub enum ProbeOutcome {
    /// every depth returned; (n, outcome text) per step
    Completed(Vec<(usize, String)>),
    /// the oracle failed in the child (span / panic …)
    OracleFail { n: usize, sig: String, msg: String },
    /// the child died while working on depth n
    Crashed { n: usize, len: usize, how: String, passed: Vec<(usize, String)> },
    Timeout { n: Option<usize> },
    Harness(String),
}

pub fn probe(shape: &Shape, api: &str, stack: &str, ladder: &[usize]) -> ProbeOutcome {
    let mut args = vec![shape.name.to_string(), api.to_string(), stack.to_string()];
    args.extend(ladder.iter().map(|n| n.to_string()));
    let out = match run_child_budget("nest-probe", &args, CHILD_BUDGET) {
        Ok(o) => o,
        Err(e) => return ProbeOutcome::Harness(format!("cannot run child: {e}")),
    };
    let mut started: Option<usize> = None;
    let mut passed = Vec::new();
    for line in out.stdout.lines() {
        let mut it = line.splitn(3, ' ');
        match (it.next(), it.next().and_then(|n| n.parse::<usize>().ok()), it.next()) {
            (Some("START"), Some(n), _) => started = Some(n),
            (Some("DONE"), Some(n), rest) => {
                passed.push((n, rest.unwrap_or("").to_string()));
                started = None;
            },
            (Some("FAIL"), Some(n), Some(rest)) => {
                let (sig, msg) = rest.split_once(" :: ").unwrap_or((rest, ""));
                return ProbeOutcome::OracleFail { n, sig: sig.to_string(), msg: msg.to_string() };
            },
            _ => {},
        }
    }
    if out.timed_out {
        return ProbeOutcome::Timeout { n: started };
    }
    if out.code == Some(0) && started.is_none() {
        return ProbeOutcome::Completed(passed);
    }
    match started {
        Some(n) => {
            let how = match (out.signal, out.code) {
                (Some(s), _) => format!("killed by signal {s}"),
                (None, Some(c)) => format!("exit code {c}"),
                _ => "unknown exit".to_string(),
            };
            let first_err = out.stderr.lines().find(|l| !l.trim().is_empty()).unwrap_or("").chars().take(160).collect::<String>();
            ProbeOutcome::Crashed { n, len: build_text(shape, api, n).len(), how: format!("{how}; stderr: {first_err}"), passed }
        },
        None => ProbeOutcome::Harness(format!("child ended with code {:?} signal {:?} outside a probe step: {}", out.code, out.signal, out.stderr)),
    }
}

fn group_of(api: &str) -> &'static str {
    match api {
        "parse_expr" => "parse_expr",
        "parse" | "parse_all" => "statement-parser",
        _ => "lexer",
    }
}

pub fn crash_sig(shape: &Shape, api: &str, stack: &str) -> String {
    format!("stack-overflow:{}:{}:{}", group_of(api), shape.class, stack)
}

fn combos() -> Vec<(&'static Shape, &'static str, &'static str)> {
    let mut v = Vec::new();
    for shape in SHAPES {
        for api in APIS {
            if api == "parse_expr" && !shape.expr {
                continue;
            }
            if api == "tokenize" && !matches!(shape.name, "paren" | "chain-add" | "not") {
                continue;
            }
            for stack in STACKS {
                v.push((shape, api, stack));
            }
        }
    }
    v
}

pub fn part() -> CustomPart {
    CustomPart {
        name: "nest",
        run: Box::new(|cfg: &RunCfg, findings: &Findings, stats: &mut PartStats| run(cfg, findings, stats)),
        replay: Box::new(|case: &Value, findings: &Findings, strict: bool| replay(case, findings, strict)),
    }
}

fn run(cfg: &RunCfg, findings: &Findings, stats: &mut PartStats) -> Option<Violation> {
    let all = combos();
    // thorough: a denser ladder around the thresholds
    let ladder: Vec<usize> = match cfg.tier {
        Tier::Quick => LADDER.to_vec(),
        Tier::Thorough => {
            let mut v = LADDER.to_vec();
            v.extend([32, 100, 500, 1500, 3000, 6000, 12000, 24000, 50000, 75000]);
            v.sort_unstable();
            v
        },
    };
    let jobs = cfg.jobs.clamp(1, 8);
    let results: std::sync::Mutex<Vec<(usize, ProbeOutcome)>> = std::sync::Mutex::new(Vec::new());
    let next = std::sync::atomic::AtomicUsize::new(0);
    std::thread::scope(|sc| {
        for _ in 0..jobs {
            sc.spawn(|| loop {
                let i = next.fetch_add(1, std::sync::atomic::Ordering::Relaxed);
                if i >= all.len() {
                    break;
                }
                let (shape, api, stack) = all[i];
                let mut o = probe(shape, api, stack, &ladder);
                // tighten a crash threshold: 4 bisection steps between the last depth that returned and the crashing one
                if let ProbeOutcome::Crashed { n, passed, .. } = &o {
                    let mut lo = passed.last().map_or(0, |(n, _)| *n);
                    let mut hi = *n;
                    let mut best: Option<ProbeOutcome> = None;
                    let mut passed = passed.clone();
                    for _ in 0..4 {
                        if hi - lo < 2 {
                            break;
                        }
                        let mid = lo + (hi - lo) / 2;
                        match probe(shape, api, stack, &[mid]) {
                            ProbeOutcome::Completed(steps) => {
                                lo = mid;
                                passed.extend(steps);
                            },
                            c @ ProbeOutcome::Crashed { .. } => {
                                hi = mid;
                                best = Some(c);
                            },
                            _ => break,
                        }
                    }
                    if let Some(ProbeOutcome::Crashed { n, len, how, .. }) = best {
                        o = ProbeOutcome::Crashed { n, len, how, passed };
                    } else if let ProbeOutcome::Crashed { n, len, how, .. } = o {
                        o = ProbeOutcome::Crashed { n, len, how, passed };
                    }
                }
                results.lock().unwrap().push((i, o));
            });
        }
    });
    let mut results = results.into_inner().unwrap();
    results.sort_by_key(|(i, _)| *i);

    let mut violation: Option<Violation> = None;
    let mut thresholds: std::collections::BTreeMap<String, usize> = std::collections::BTreeMap::new();
    let mut inconclusive = 0u64;
    for (i, outcome) in results {
        let (shape, api, stack) = all[i];
        let case = json!({ "shape": shape.name, "api": api, "stack": stack, "ladder": ladder });
        match outcome {
            ProbeOutcome::Completed(steps) => {
                stats.evaluations += steps.len() as u64;
                for (n, what) in &steps {
                    // non-trivial by rule (1): every probe text reaches the parser with >= 1 keyword
                    // token except the pure-punctuation parse_expr shapes
                    if build_text(shape, api, *n).split(|c: char| !c.is_ascii_alphabetic()).any(|w| nv_c15::KEYWORDS.contains(&w)) {
                        stats.nontrivial.insert(nv_engine::fnv64(format!("{}/{api}/{stack}/{n}", shape.name).as_bytes()));
                    }
                    let outcome_word = what.split_whitespace().nth(1).unwrap_or("?").to_string();
                    if *n >= 65 {
                        stats.label(&format!("{}:{}:n>=65:{}", group_of(api), shape.class, outcome_word));
                    } else {
                        stats.label(&format!("{}:{}:n<=64:{}", group_of(api), shape.class, outcome_word));
                    }
                }
                stats.label(&format!("child-completed:{stack}"));
                if stats.samples.len() < 2 && api == "parse_expr" && shape.name == "paren" {
                    stats.sample(json!({ "case": case, "steps": steps }));
                }
            },
            ProbeOutcome::Crashed { n, len, how, passed } => {
                stats.evaluations += passed.len() as u64 + 1;
                let sig = crash_sig(shape, api, stack);
                let key = format!("{}:{}:{}", group_of(api), shape.name, stack);
                thresholds.insert(key, n);
                let last_ok = passed.iter().map(|(n, _)| *n).max().unwrap_or(0);
                if len > DOMAIN_BYTES {
                    stats.label(&format!("crash-beyond-domain(>{}KiB input):{}:{}:{stack}", DOMAIN_BYTES / 1024, group_of(api), shape.class));
                    continue;
                }
                let msg = format!(
                    "{api}({} nested {n} deep, {len} bytes) on the {stack} stack: child {how}; deepest ladder step that returned: {last_ok}",
                    shape.name
                );
                stats.label(&format!("crash:{}:{}:{stack}", group_of(api), shape.class));
                if findings.is_known(&sig) {
                    stats.excluded(&sig);
                } else if violation.is_none() {
                    let mut c = case.clone();
                    c["ladder"] = json!([last_ok, n]);
                    let f = Fail::new(sig.clone(), msg.clone());
                    let path = write_replay(cfg, "nest", &f, &c);
                    violation = Some(Violation { part: "nest".into(), sig, msg, replay: path });
                }
            },
            ProbeOutcome::OracleFail { n, sig, msg } => {
                stats.evaluations += 1;
                if findings.is_known(&sig) {
                    stats.excluded(&sig);
                } else if violation.is_none() {
                    let mut c = case.clone();
                    c["ladder"] = json!([n]);
                    let f = Fail::new(sig.clone(), msg.clone());
                    let path = write_replay(cfg, "nest", &f, &c);
                    violation = Some(Violation { part: "nest".into(), sig, msg, replay: path });
                }
            },
            ProbeOutcome::Timeout { n } => {
                inconclusive += 1;
                stats.label("inconclusive:child-over-20s");
                eprintln!("nv C15 nest: probe {}/{api}/{stack} exceeded 20 s at n={n:?} — inconclusive, not a violation", shape.name);
            },
            ProbeOutcome::Harness(e) => {
                inconclusive += 1;
                stats.label("inconclusive:harness");
                eprintln!("nv C15 nest: {e}");
            },
        }
    }
    stats.extra.insert("children".into(), json!(all.len()));
    stats.extra.insert("ladder".into(), json!(ladder));
    stats.extra.insert("inconclusive_probes".into(), json!(inconclusive));
    stats.extra.insert("smallest_crashing_depth_found".into(), json!(thresholds));
    stats.extra.insert("domain_bytes".into(), json!(DOMAIN_BYTES));
    violation
}

fn replay(case: &Value, findings: &Findings, strict: bool) -> Result<(), Fail> {
    let name = case["shape"].as_str().unwrap_or("");
    let api = case["api"].as_str().unwrap_or("");
    let stack = case["stack"].as_str().unwrap_or("main8m");
    let ladder: Vec<usize> = case["ladder"].as_array().map(|a| a.iter().filter_map(|v| v.as_u64()).map(|v| v as usize).collect()).unwrap_or_default();
    let Some(shape) = SHAPES.iter().find(|s| s.name == name) else {
        return Err(Fail::new("replay-format", "unknown shape"));
    };
    let api: &'static str = APIS.iter().find(|a| **a == api).copied().ok_or_else(|| Fail::new("replay-format", "unknown api"))?;
    match probe(shape, api, stack, &ladder) {
        ProbeOutcome::Completed(_) => Ok(()),
        ProbeOutcome::Crashed { n, len, how, .. } => {
            let sig = crash_sig(shape, api, stack);
            if (!strict && findings.is_known(&sig)) || len > DOMAIN_BYTES {
                return Ok(());
            }
            Err(Fail::new(sig, format!("{api}({name} nested {n} deep, {len} bytes) on the {stack} stack: child {how}")))
        },
        ProbeOutcome::OracleFail { sig, msg, .. } => {
            if !strict && findings.is_known(&sig) {
                return Ok(());
            }
            Err(Fail::new(sig, msg))
        },
        ProbeOutcome::Timeout { .. } => {
            eprintln!("nv C15 nest replay: probe exceeded 20 s — inconclusive");
            Ok(())
        },
        ProbeOutcome::Harness(e) => Err(Fail::new("harness", e)),
    }
}
