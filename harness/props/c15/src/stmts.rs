//! Part `stmts`: text ≡ API.
//!
//! A case is a sequence of well-formed statements of the three families (relational DDL/DML/SELECT;
//! NODE/EDGE/NEIGHBORS/PATH; EMBED/SIMILAR). Every statement is
//!   * printed by the harness and executed as text on a `QueryRouter` (`execute_parsed`, the path the
//!     shell and the server use), and
//!   * executed as the equivalent direct engine call(s) on a twin set of engines over a second store,
//! and the two results must agree. After the sequence the full contents of both stores are read out
//! through the engine APIs and must agree. Read-only statements that the legacy splitter
//! `QueryRouter::execute` also accepts are additionally run through it on the same router.
//!
//! The text is produced from the structured statement by this file's own printer (WHERE clauses with
//! minimal or full parentheses by the documented precedence OR < AND < comparison); the engine calls
//! are built from the same structure without going through the parser.

use graph_engine::{Direction, GraphEngine, GraphError, PropertyValue};
use nv_engine::{pick, CaseCtx, Fail, Tier};
use proptest::prelude::*;
use query_router::{QueryResult, QueryRouter, RouterError};
use relational_engine::{Column, ColumnType, ColumnarScanOptions, Condition, RelationalEngine, Row, Schema, Value};
use serde::{Deserialize, Serialize};
use std::collections::{BTreeMap, BTreeSet, HashMap};
use tensor_store::TensorStore;
use vector_engine::{DistanceMetric, VectorEngine};

// ---------------------------------------------------------------------------------------------
// universe

#[derive(Clone, Copy, PartialEq, Eq, Debug)]
enum Ty {
    Int,
    Float,
    Str,
    Bool,
}

struct ColDef {
    name: &'static str,
    ty: Ty,
    not_null: bool,
}

struct TableDef {
    name: &'static str,
    cols: &'static [ColDef],
}

const TABLES: [TableDef; 3] = [
    TableDef {
        name: "users",
        cols: &[
            ColDef { name: "id", ty: Ty::Int, not_null: true },
            ColDef { name: "name", ty: Ty::Str, not_null: false },
            ColDef { name: "score", ty: Ty::Float, not_null: false },
            ColDef { name: "ok", ty: Ty::Bool, not_null: false },
        ],
    },
    TableDef {
        name: "t1",
        cols: &[
            ColDef { name: "a", ty: Ty::Int, not_null: false },
            ColDef { name: "b", ty: Ty::Int, not_null: false },
            ColDef { name: "c", ty: Ty::Str, not_null: false },
        ],
    },
    TableDef {
        name: "Orders",
        cols: &[
            ColDef { name: "k", ty: Ty::Int, not_null: true },
            ColDef { name: "v", ty: Ty::Float, not_null: false },
            // contextual keywords the documentation allows as column names ("SELECT status FROM orders")
            ColDef { name: "status", ty: Ty::Str, not_null: false },
            ColDef { name: "depth", ty: Ty::Int, not_null: false },
        ],
    },
];

const STRS: &[&str] = &["alice", "bob", "", "it's", "a b", "x AND y", "50%", "-- no", "Ünï", "NULL", "q\"q", "back\\slash", "a OR b = 1", "(p)", "a  b", "a\tb"];

/// Strings that differ only in the white space INSIDE them ("a b" / "a  b" / "a\tb"): a statement
/// and its twin are different statements although they are equal up to white space.
fn space_twin(i: u8) -> Option<u8> {
    let pos = |s: &str| STRS.iter().position(|x| *x == s).map(|p| p as u8);
    match STRS[i as usize % STRS.len()] {
        "a b" => pos("a  b"),
        "a  b" => pos("a\tb"),
        "a\tb" => pos("a b"),
        _ => None,
    }
}

fn twin_cond(c: &Cond) -> Option<Cond> {
    match c {
        Cond::Cmp { col, op, val: Val::Str(i) } => space_twin(*i).map(|j| Cond::Cmp { col: *col, op: *op, val: Val::Str(j) }),
        Cond::Cmp { .. } => None,
        Cond::And(a, b) | Cond::Or(a, b) => {
            let (ta, tb) = (twin_cond(a), twin_cond(b));
            if ta.is_none() && tb.is_none() {
                return None;
            }
            let (x, y) = (Box::new(ta.unwrap_or_else(|| (**a).clone())), Box::new(tb.unwrap_or_else(|| (**b).clone())));
            Some(if matches!(c, Cond::And(..)) { Cond::And(x, y) } else { Cond::Or(x, y) })
        },
    }
}

const LABELS: &[&str] = &["person", "city", "Doc"];
const ETYPES: &[&str] = &["knows", "lives_in", "REL"];
const PKEYS: &[&str] = &["name", "age", "status", "type", "w"];
const EKEYS: &[&str] = &["k1", "k2", "doc_a", "doc_b", "item"];

// ---------------------------------------------------------------------------------------------
// case

#[derive(Clone, Debug, Serialize, Deserialize, PartialEq)]
pub enum Val {
    Null,
    Int(i64),
    /// quarters
    Float(i32),
    Str(u8),
    Bool(bool),
}

#[derive(Clone, Copy, Debug, Serialize, Deserialize, PartialEq, Eq)]
pub enum Cmp {
    Eq,
    Ne,
    Lt,
    Le,
    Gt,
    Ge,
}

#[derive(Clone, Debug, Serialize, Deserialize)]
pub enum Cond {
    Cmp { col: u16, op: Cmp, val: Val },
    And(Box<Cond>, Box<Cond>),
    Or(Box<Cond>, Box<Cond>),
}

#[derive(Clone, Debug, Serialize, Deserialize)]
pub enum Query {
    Key(u8),
    Vector(Vec<i16>),
}

#[derive(Clone, Debug, Serialize, Deserialize)]
pub enum Op {
    CreateTable { t: u8, if_not_exists: bool, style: u8 },
    DropTable { t: u8, if_exists: bool },
    CreateIndex { t: u8, col: u16 },
    DropIndex { t: u8, col: u16 },
    Insert { t: u8, explicit_cols: bool, rows: Vec<Vec<Val>>, style: u8 },
    Select { t: u8, proj: Vec<u16>, cond: Option<Cond>, order: Option<(u16, bool, u8)>, limit: Option<u8>, offset: Option<u8>, style: u8 },
    /// SELECT * FROM a JOIN b ON a.x = b.y [LIMIT n] [OFFSET m] (`pair` picks the tables and columns)
    Join { pair: u8, limit: Option<u8>, offset: Option<u8>, style: u8 },
    Update { t: u8, sets: Vec<(u16, Val)>, cond: Option<Cond>, style: u8 },
    Delete { t: u8, cond: Option<Cond>, style: u8 },
    ShowTables,
    NodeCreate { label: u8, props: Vec<(u8, Val)>, style: u8 },
    NodeGet { id: u16 },
    NodeDelete { id: u16 },
    NodeList { label: Option<u8>, limit: Option<u8>, offset: Option<u8> },
    EdgeCreate { from: u16, to: u16, ty: u8, props: Vec<(u8, Val)>, style: u8 },
    EdgeGet { id: u16 },
    EdgeDelete { id: u16 },
    EdgeList { ty: Option<u8>, limit: Option<u8>, offset: Option<u8> },
    Neighbors { id: u16, dir: Option<u8>, ty: Option<u8> },
    Path { from: u16, to: u16, shortest_kw: bool },
    EmbedStore { key: u8, vec: Vec<i16> },
    EmbedGet { key: u8 },
    EmbedDelete { key: u8 },
    EmbedBatch { items: Vec<(u8, Vec<i16>)> },
    Similar { query: Query, limit: Option<u8>, metric: Option<u8> },
    CountEmbeddings,
}

#[derive(Clone, Debug, Serialize, Deserialize)]
pub struct StmtCase {
    /// spelling of the three CREATE TABLE statements every sequence starts with
    pub style: u8,
    /// populating statements (INSERT / NODE CREATE / EDGE CREATE / EMBED STORE)
    pub setup: Vec<Op>,
    pub ops: Vec<Op>,
}

fn val() -> impl Strategy<Value = Val> {
    prop_oneof![
        8 => Just(Val::Null),
        32 => (0i64..6).prop_map(Val::Int),
        2 => prop::sample::select(vec![1_000_000_007, i64::MAX]).prop_map(Val::Int),
        20 => (0i32..24).prop_map(Val::Float),
        // negative literals are refused by the text path (recorded finding): keep them rare
        1 => prop_oneof![prop::sample::select(vec![-1i64, -3]).prop_map(Val::Int), (-8i32..0).prop_map(Val::Float)],
        24 => (0u8..STRS.len() as u8).prop_map(Val::Str),
        12 => any::<bool>().prop_map(Val::Bool),
    ]
}

fn cmp() -> impl Strategy<Value = Cmp> {
    prop::sample::select(vec![Cmp::Eq, Cmp::Ne, Cmp::Lt, Cmp::Le, Cmp::Gt, Cmp::Ge])
}

fn cond() -> impl Strategy<Value = Cond> {
    let leaf = (any::<u16>(), cmp(), val()).prop_map(|(col, op, val)| Cond::Cmp { col, op, val });
    leaf.prop_recursive(4, 12, 2, |inner| {
        prop_oneof![
            (inner.clone(), inner.clone()).prop_map(|(a, b)| Cond::And(Box::new(a), Box::new(b))),
            (inner.clone(), inner).prop_map(|(a, b)| Cond::Or(Box::new(a), Box::new(b))),
        ]
    })
}

fn vecq() -> impl Strategy<Value = Vec<i16>> {
    // first component positive so the query / stored vector is never the zero vector
    (1i16..12, prop::collection::vec(prop_oneof![40 => 0i16..12, 1 => -6i16..0], 2)).prop_map(|(a, rest)| {
        let mut v = vec![a];
        v.extend(rest);
        v
    })
}

fn props() -> impl Strategy<Value = Vec<(u8, Val)>> {
    prop::collection::vec((0u8..PKEYS.len() as u8, val()), 0..3)
}

fn opt_small() -> impl Strategy<Value = Option<u8>> {
    prop::option::weighted(0.3, 0u8..5)
}

fn op() -> impl Strategy<Value = Op> {
    let t = 0u8..3;
    prop_oneof![
        2 => (t.clone(), prop::bool::weighted(0.3), any::<u8>()).prop_map(|(t, if_not_exists, style)| Op::CreateTable { t, if_not_exists, style }),
        1 => (t.clone(), prop::bool::weighted(0.3)).prop_map(|(t, if_exists)| Op::DropTable { t, if_exists }),
        2 => (t.clone(), any::<u16>()).prop_map(|(t, col)| Op::CreateIndex { t, col }),
        1 => (t.clone(), any::<u16>()).prop_map(|(t, col)| Op::DropIndex { t, col }),
        14 => (t.clone(), any::<bool>(), prop::collection::vec(prop::collection::vec(val(), 4), 1..4), any::<u8>())
            .prop_map(|(t, explicit_cols, rows, style)| Op::Insert { t, explicit_cols, rows, style }),
        16 => (t.clone(), prop::collection::vec(any::<u16>(), 0..3), prop::option::weighted(0.75, cond()),
               prop::option::weighted(0.3, (any::<u16>(), any::<bool>(), 0u8..3)), opt_small(), opt_small(), any::<u8>())
            .prop_map(|(t, proj, cond, order, limit, offset, style)| Op::Select { t, proj, cond, order, limit, offset, style }),
        3 => (0u8..4, prop::option::weighted(0.6, 0u8..5), prop::option::weighted(0.6, 0u8..4), any::<u8>())
            .prop_map(|(pair, limit, offset, style)| Op::Join { pair, limit, offset, style }),
        4 => (t.clone(), prop::collection::vec((any::<u16>(), val()), 1..3), prop::option::weighted(0.8, cond()), any::<u8>())
            .prop_map(|(t, sets, cond, style)| Op::Update { t, sets, cond, style }),
        3 => (t, prop::option::weighted(0.85, cond()), any::<u8>()).prop_map(|(t, cond, style)| Op::Delete { t, cond, style }),
        1 => Just(Op::ShowTables),
        7 => (0u8..LABELS.len() as u8, props(), any::<u8>()).prop_map(|(label, props, style)| Op::NodeCreate { label, props, style }),
        3 => any::<u16>().prop_map(|id| Op::NodeGet { id }),
        1 => any::<u16>().prop_map(|id| Op::NodeDelete { id }),
        1 => (prop::option::weighted(0.6, 0u8..LABELS.len() as u8), opt_small(), opt_small()).prop_map(|(label, limit, offset)| Op::NodeList { label, limit, offset }),
        7 => (any::<u16>(), any::<u16>(), 0u8..ETYPES.len() as u8, props(), any::<u8>()).prop_map(|(from, to, ty, props, style)| Op::EdgeCreate { from, to, ty, props, style }),
        2 => any::<u16>().prop_map(|id| Op::EdgeGet { id }),
        1 => any::<u16>().prop_map(|id| Op::EdgeDelete { id }),
        1 => (prop::option::weighted(0.6, 0u8..ETYPES.len() as u8), opt_small(), opt_small()).prop_map(|(ty, limit, offset)| Op::EdgeList { ty, limit, offset }),
        5 => (any::<u16>(), prop::option::weighted(0.7, 0u8..3), prop::option::weighted(0.4, 0u8..ETYPES.len() as u8)).prop_map(|(id, dir, ty)| Op::Neighbors { id, dir, ty }),
        4 => (any::<u16>(), any::<u16>(), any::<bool>()).prop_map(|(from, to, shortest_kw)| Op::Path { from, to, shortest_kw }),
        7 => (0u8..EKEYS.len() as u8, vecq()).prop_map(|(key, vec)| Op::EmbedStore { key, vec }),
        2 => (0u8..EKEYS.len() as u8).prop_map(|key| Op::EmbedGet { key }),
        1 => (0u8..EKEYS.len() as u8).prop_map(|key| Op::EmbedDelete { key }),
        1 => prop::collection::vec((0u8..EKEYS.len() as u8, vecq()), 1..3).prop_map(|items| Op::EmbedBatch { items }),
        6 => (prop_oneof![(0u8..EKEYS.len() as u8).prop_map(Query::Key), vecq().prop_map(Query::Vector)], opt_small(), prop::option::weighted(0.5, 0u8..3))
            .prop_map(|(query, limit, metric)| Op::Similar { query, limit, metric }),
        1 => Just(Op::CountEmbeddings),
    ]
}

/// Statements that populate the stores (the interpreter creates the three tables first).
fn populate_op() -> impl Strategy<Value = Op> {
    prop_oneof![
        6 => (0u8..3, any::<bool>(), prop::collection::vec(prop::collection::vec(val(), 4), 1..4), any::<u8>())
            .prop_map(|(t, explicit_cols, rows, style)| Op::Insert { t, explicit_cols, rows, style }),
        3 => (0u8..LABELS.len() as u8, props(), any::<u8>()).prop_map(|(label, props, style)| Op::NodeCreate { label, props, style }),
        3 => (any::<u16>(), any::<u16>(), 0u8..ETYPES.len() as u8, props(), any::<u8>()).prop_map(|(from, to, ty, props, style)| Op::EdgeCreate { from, to, ty, props, style }),
        3 => (0u8..EKEYS.len() as u8, vecq()).prop_map(|(key, vec)| Op::EmbedStore { key, vec }),
    ]
}

pub fn strategy(_t: Tier) -> impl Strategy<Value = StmtCase> {
    (any::<u8>(), prop::collection::vec(populate_op(), 0..14), prop::collection::vec(op(), 1..26)).prop_map(|(style, setup, ops)| StmtCase { style, setup, ops })
}

// ---------------------------------------------------------------------------------------------
// printing

fn kw(s: &str, style: u8) -> String {
    if style & 1 != 0 {
        s.to_lowercase()
    } else {
        s.to_string()
    }
}

fn lit(v: &Val, style: u8) -> String {
    match v {
        Val::Null => kw("NULL", style),
        Val::Int(n) => n.to_string(),
        Val::Float(q) => format!("{:.2}", f64::from(*q) / 4.0),
        Val::Str(i) => nv_c15::tree::quote_with(STRS[*i as usize % STRS.len()], if style & 8 != 0 { '"' } else { '\'' }),
        Val::Bool(b) => kw(if *b { "TRUE" } else { "FALSE" }, style),
    }
}

fn is_negative(v: &Val) -> bool {
    matches!(v, Val::Int(n) if *n < 0) || matches!(v, Val::Float(q) if *q < 0)
}

/// Make a generated value fit the column type (so most statements succeed); `keep` leaves it as is.
fn coerce(v: &Val, ty: Ty, keep: bool) -> Val {
    if keep {
        return v.clone();
    }
    match (v, ty) {
        (Val::Null, _) => Val::Null,
        (Val::Int(_), Ty::Int) | (Val::Float(_), Ty::Float) | (Val::Str(_), Ty::Str) | (Val::Bool(_), Ty::Bool) => v.clone(),
        (Val::Int(n), Ty::Float) => Val::Float((*n % 24) as i32),
        (Val::Int(n), Ty::Str) => Val::Str((*n).unsigned_abs() as u8 % STRS.len() as u8),
        (Val::Int(n), Ty::Bool) => Val::Bool(n & 1 == 1),
        (Val::Float(q), Ty::Int) => Val::Int(i64::from(*q / 4)),
        (Val::Float(q), Ty::Str) => Val::Str(q.unsigned_abs() as u8 % STRS.len() as u8),
        (Val::Float(q), Ty::Bool) => Val::Bool(q & 1 == 1),
        (Val::Str(i), Ty::Int) => Val::Int(i64::from(*i % 6)),
        (Val::Str(i), Ty::Float) => Val::Float(i32::from(*i)),
        (Val::Str(i), Ty::Bool) => Val::Bool(i & 1 == 1),
        (Val::Bool(b), Ty::Int) => Val::Int(i64::from(*b)),
        (Val::Bool(b), Ty::Float) => Val::Float(i32::from(*b) * 6),
        (Val::Bool(b), Ty::Str) => Val::Str(u8::from(*b)),
    }
}

fn to_value(v: &Val) -> Value {
    match v {
        Val::Null => Value::Null,
        Val::Int(n) => Value::Int(*n),
        Val::Float(q) => Value::Float(f64::from(*q) / 4.0),
        Val::Str(i) => Value::String(STRS[*i as usize % STRS.len()].to_string()),
        Val::Bool(b) => Value::Bool(*b),
    }
}

fn to_prop(v: &Val) -> PropertyValue {
    match v {
        Val::Null => PropertyValue::Null,
        Val::Int(n) => PropertyValue::Int(*n),
        Val::Float(q) => PropertyValue::Float(f64::from(*q) / 4.0),
        Val::Str(i) => PropertyValue::String(STRS[*i as usize % STRS.len()].to_string()),
        Val::Bool(b) => PropertyValue::Bool(*b),
    }
}

/// Independent rendering of a property for NODE GET (documented behaviour of the router's result).
fn prop_string(v: &PropertyValue) -> String {
    match v {
        PropertyValue::Null => "null".into(),
        PropertyValue::Int(i) => i.to_string(),
        PropertyValue::Float(f) => f.to_string(),
        PropertyValue::String(s) => s.clone(),
        PropertyValue::Bool(b) => b.to_string(),
        other => format!("{other:?}"),
    }
}

fn cmp_text(op: Cmp, style: u8) -> &'static str {
    match op {
        Cmp::Eq => "=",
        Cmp::Ne => {
            if style & 2 != 0 {
                "<>"
            } else {
                "!="
            }
        },
        Cmp::Lt => "<",
        Cmp::Le => "<=",
        Cmp::Gt => ">",
        Cmp::Ge => ">=",
    }
}

struct CondInfo {
    ne_angle: bool,
    has_neg: bool,
    has_paren: bool,
    mixes_and_or: bool,
    tricky_string: bool,
    /// a string literal holding a tab or a run of blanks
    blank_run_string: bool,
}

/// Resolve a condition against a table: concrete column names and type-coerced literals.
#[derive(Clone, Debug)]
enum RCond {
    Cmp(&'static str, Cmp, Val),
    And(Box<RCond>, Box<RCond>),
    Or(Box<RCond>, Box<RCond>),
}

fn resolve(c: &Cond, t: &TableDef) -> RCond {
    match c {
        Cond::Cmp { col, op, val } => {
            let cd = &t.cols[pick(*col, t.cols.len())];
            // one in eight comparisons keeps a literal of another type (the engine decides what that means; both sides see the same call)
            let keep = col % 16 == 15;
            RCond::Cmp(cd.name, *op, coerce(val, cd.ty, keep))
        },
        Cond::And(a, b) => RCond::And(Box::new(resolve(a, t)), Box::new(resolve(b, t))),
        Cond::Or(a, b) => RCond::Or(Box::new(resolve(a, t)), Box::new(resolve(b, t))),
    }
}

fn rcond_level(c: &RCond) -> u8 {
    match c {
        RCond::Or(..) => 1,
        RCond::And(..) => 2,
        RCond::Cmp(..) => 3,
    }
}

fn print_cond(c: &RCond, style: u8, info: &mut CondInfo, out: &mut String) {
    let full = style & 16 != 0;
    let operand = |child: &RCond, need: bool, info: &mut CondInfo, out: &mut String| {
        let wrap = if full { rcond_level(child) < 3 } else { need };
        if wrap {
            info.has_paren = true;
            out.push('(');
            print_cond(child, style, info, out);
            out.push(')');
        } else {
            print_cond(child, style, info, out);
        }
    };
    match c {
        RCond::Cmp(col, op, v) => {
            if is_negative(v) {
                info.has_neg = true;
            }
            if let Val::Str(i) = v {
                let s = STRS[*i as usize % STRS.len()];
                if s.contains(" AND ") || s.contains(" OR ") || s.contains('=') || s.contains('(') || s.contains('\'') || s.contains('"') || s.contains('\\') {
                    info.tricky_string = true;
                }
                if s.contains('\t') || s.contains("  ") {
                    info.blank_run_string = true;
                }
            }
            if *op == Cmp::Ne && style & 2 != 0 {
                info.ne_angle = true;
            }
            out.push_str(col);
            out.push(' ');
            out.push_str(cmp_text(*op, style));
            out.push(' ');
            out.push_str(&lit(v, style));
        },
        RCond::And(a, b) => {
            if matches!(**a, RCond::Or(..)) || matches!(**b, RCond::Or(..)) {
                info.mixes_and_or = true;
            }
            operand(a, rcond_level(a) < 2, info, out);
            out.push(' ');
            out.push_str(&kw("AND", style));
            out.push(' ');
            operand(b, rcond_level(b) <= 2, info, out);
        },
        RCond::Or(a, b) => {
            if matches!(**a, RCond::And(..)) || matches!(**b, RCond::And(..)) {
                info.mixes_and_or = true;
            }
            operand(a, false, info, out);
            out.push(' ');
            out.push_str(&kw("OR", style));
            out.push(' ');
            operand(b, rcond_level(b) <= 1, info, out);
        },
    }
}

fn to_condition(c: &RCond) -> Condition {
    match c {
        RCond::Cmp(col, op, v) => {
            let (c, v) = ((*col).to_string(), to_value(v));
            match op {
                Cmp::Eq => Condition::Eq(c, v),
                Cmp::Ne => Condition::Ne(c, v),
                Cmp::Lt => Condition::Lt(c, v),
                Cmp::Le => Condition::Le(c, v),
                Cmp::Gt => Condition::Gt(c, v),
                Cmp::Ge => Condition::Ge(c, v),
            }
        },
        RCond::And(a, b) => Condition::And(Box::new(to_condition(a)), Box::new(to_condition(b))),
        RCond::Or(a, b) => Condition::Or(Box::new(to_condition(a)), Box::new(to_condition(b))),
    }
}

fn vec_text(v: &[i16]) -> String {
    let items: Vec<String> = v
        .iter()
        .enumerate()
        .map(|(i, q)| if q % 4 == 0 && i % 2 == 1 { (q / 4).to_string() } else { format!("{:.2}", f32::from(*q) / 4.0) })
        .collect();
    format!("[{}]", items.join(", "))
}

fn vec_f32(v: &[i16]) -> Vec<f32> {
    v.iter().map(|q| f32::from(*q) / 4.0).collect()
}

// ---------------------------------------------------------------------------------------------
// world

struct World {
    router: QueryRouter,
    rel: RelationalEngine,
    graph: GraphEngine,
    vector: VectorEngine,
    max_node: u64,
    max_edge: u64,
}

impl World {
    fn new() -> Self {
        let twin = TensorStore::new();
        Self {
            router: QueryRouter::new(),
            rel: RelationalEngine::with_store(twin.clone()),
            graph: GraphEngine::with_store(twin.clone()),
            vector: VectorEngine::with_store(twin),
            max_node: 0,
            max_edge: 0,
        }
    }
}

/// Canonical result for comparison.
#[derive(Clone, Debug, PartialEq)]
enum Out {
    Empty,
    Value(String),
    Count(usize),
    Ids(Vec<u64>),
    Rows(Vec<String>),
    Nodes(Vec<(u64, String, BTreeMap<String, String>)>),
    Edges(Vec<(u64, u64, u64, String)>),
    Path(Vec<u64>),
    Similar(Vec<(String, u32)>),
    Tables(Vec<String>),
    Err(String),
    Other(String),
}

fn row_string(r: &Row) -> String {
    format!("#{} {:?}", r.id, r.values)
}

fn out_of(r: Result<QueryResult, RouterError>) -> Out {
    match r {
        Ok(QueryResult::Empty) => Out::Empty,
        Ok(QueryResult::Value(s)) => Out::Value(s),
        Ok(QueryResult::Count(n)) => Out::Count(n),
        Ok(QueryResult::Ids(v)) => Out::Ids(v),
        Ok(QueryResult::Rows(rows)) => Out::Rows(rows.iter().map(row_string).collect()),
        Ok(QueryResult::Nodes(ns)) => Out::Nodes(ns.into_iter().map(|n| (n.id, n.label, n.properties.into_iter().collect())).collect()),
        Ok(QueryResult::Edges(es)) => Out::Edges(es.into_iter().map(|e| (e.id, e.from, e.to, e.label)).collect()),
        Ok(QueryResult::Path(p)) => Out::Path(p),
        Ok(QueryResult::Similar(s)) => Out::Similar(s.into_iter().map(|r| (r.key, r.score.to_bits())).collect()),
        Ok(QueryResult::TableList(mut t)) => {
            t.sort();
            Out::Tables(t)
        },
        Ok(other) => Out::Other(format!("{other:?}").chars().take(80).collect()),
        Err(e) => Out::Err(err_class(&e)),
    }
}

fn err_class(e: &RouterError) -> String {
    match e {
        RouterError::ParseError(m) => format!("ParseError:{}", m.chars().take(120).collect::<String>()),
        RouterError::RelationalError(_) => "RelationalError".into(),
        RouterError::GraphError(_) => "GraphError".into(),
        RouterError::VectorError(_) => "VectorError".into(),
        RouterError::InvalidArgument(m) => format!("InvalidArgument:{m}"),
        other => format!("{other:?}").chars().take(60).collect(),
    }
}

fn rows_returned(o: &Out) -> usize {
    match o {
        Out::Ids(v) | Out::Path(v) => v.len(),
        Out::Rows(v) => v.len(),
        Out::Nodes(v) => v.len(),
        Out::Edges(v) => v.len(),
        Out::Similar(v) => v.len(),
        Out::Tables(v) => v.len(),
        _ => 0,
    }
}

fn short(o: &Out) -> String {
    let s = format!("{o:?}");
    if s.len() > 700 {
        format!("{}…", s.chars().take(700).collect::<String>())
    } else {
        s
    }
}

// ---------------------------------------------------------------------------------------------
// interpretation of one op: (text, family, feature tags, API result, comparison mode)

#[derive(Clone, Copy, PartialEq)]
enum Mode {
    Exact,
    /// same members, order not part of the contract
    Unordered,
    /// ORDER BY: compared by `check_ordered`
    Ordered,
    /// LIMIT without ORDER BY over an unordered listing: size and membership
    Listing,
    /// shortest path: same length and end points
    PathLen,
    /// similarity: same scores in order; keys compared as sets above the lowest score
    Scores,
    /// joins: the number of rows (the direct call's pairs, windowed by OFFSET then LIMIT); `api` is Count
    RowCount,
}

struct Step {
    text: String,
    family: &'static str,
    kind: &'static str,
    features: Vec<&'static str>,
    api: Out,
    mode: Mode,
    /// read-only and accepted by the legacy splitter: expected result of `QueryRouter::execute`
    legacy: Option<Out>,
    /// for Mode::Listing: the full set the listing is drawn from, and the expected size
    listing: Option<(BTreeSet<String>, usize)>,
    /// for Mode::Ordered: (sort column, descending, nulls: 0 unspecified / 1 first / 2 last, offset, limit, all matching rows)
    ordered: Option<(String, bool, u8, usize, Option<usize>)>,
}

fn node_id(w: &World, id: u16) -> u64 {
    // mostly existing ids, sometimes one past the end; id 0 never exists
    pick(id, (w.max_node + 2) as usize) as u64 + u64::from(w.max_node == 0)
}

fn edge_id(w: &World, id: u16) -> u64 {
    pick(id, (w.max_edge + 2) as usize) as u64 + u64::from(w.max_edge == 0)
}

fn props_text(props: &[(u8, Val)], style: u8, feats: &mut Vec<&'static str>) -> (String, HashMap<String, PropertyValue>) {
    let mut map = HashMap::new();
    let mut parts = Vec::new();
    for (k, v) in props {
        let key = PKEYS[*k as usize % PKEYS.len()];
        if is_negative(v) {
            feats.push("negative-literal");
        }
        parts.push(format!("{key}: {}", lit(v, style)));
        // later duplicates of a key overwrite earlier ones (map semantics on both sides)
        map.insert(key.to_string(), to_prop(v));
    }
    let text = if props.is_empty() && style & 32 != 0 { String::new() } else { format!(" {{{}}}", parts.join(", ")) };
    (text, map)
}

/// `dry`: build the text and the feature tags only, make no engine call.
fn step(op: &Op, w: &mut World, dry: bool) -> Step {
    let mut feats: Vec<&'static str> = Vec::new();
    let mk = |text: String, family: &'static str, kind: &'static str, feats: Vec<&'static str>, api: Out, mode: Mode| Step {
        text,
        family,
        kind,
        features: feats,
        api,
        mode,
        legacy: None,
        listing: None,
        ordered: None,
    };
    match op {
        Op::CreateTable { t, if_not_exists, style } => {
            let td = &TABLES[*t as usize % 3];
            let mut cols = Vec::new();
            let mut api_cols = Vec::new();
            for (i, c) in td.cols.iter().enumerate() {
                let ty = match c.ty {
                    Ty::Int => ["INT", "INTEGER", "BIGINT", "SMALLINT"][(*style as usize + i) % 4],
                    Ty::Float => ["FLOAT", "DOUBLE", "REAL"][(*style as usize + i) % 3],
                    Ty::Str => ["TEXT", "VARCHAR(20)", "VARCHAR"][(*style as usize + i) % 3],
                    Ty::Bool => "BOOLEAN",
                };
                cols.push(format!("{} {}{}", c.name, kw(ty, *style), if c.not_null { kw(" NOT NULL", *style) } else { String::new() }));
                let col = Column::new(
                    c.name,
                    match c.ty {
                        Ty::Int => ColumnType::Int,
                        Ty::Float => ColumnType::Float,
                        Ty::Str => ColumnType::String,
                        Ty::Bool => ColumnType::Bool,
                    },
                );
                api_cols.push(if c.not_null { col } else { col.nullable() });
            }
            let text = format!(
                "{} {}{} ({})",
                kw("CREATE TABLE", *style),
                if *if_not_exists { kw("IF NOT EXISTS ", *style) } else { String::new() },
                td.name,
                cols.join(", ")
            );
            let existed = w.rel.table_exists(td.name);
            let api = if *if_not_exists && existed {
                feats.push("if-not-exists-on-existing");
                Out::Empty
            } else if dry {
                Out::Empty
            } else {
                match w.rel.create_table(td.name, Schema::new(api_cols)) {
                    Ok(()) => Out::Empty,
                    Err(_) => Out::Err("RelationalError".into()),
                }
            };
            mk(text, "relational", "create-table", feats, api, Mode::Exact)
        },
        Op::DropTable { t, if_exists } => {
            let td = &TABLES[*t as usize % 3];
            let text = format!("DROP TABLE {}{}", if *if_exists { "IF EXISTS " } else { "" }, td.name);
            let existed = w.rel.table_exists(td.name);
            let api = if *if_exists && !existed {
                feats.push("if-exists-on-missing");
                Out::Empty
            } else if dry {
                Out::Empty
            } else {
                match w.rel.drop_table(td.name) {
                    Ok(()) => Out::Empty,
                    Err(_) => Out::Err("RelationalError".into()),
                }
            };
            mk(text, "relational", "drop-table", feats, api, Mode::Exact)
        },
        Op::CreateIndex { t, col } => {
            let td = &TABLES[*t as usize % 3];
            let c = td.cols[pick(*col, td.cols.len())].name;
            if matches!(c, "status" | "depth") {
                feats.push("ctx-keyword-in-column-list");
            }
            let text = format!("CREATE INDEX idx_{}_{c} ON {} ({c})", td.name, td.name);
            let api = if dry { Out::Empty } else { match w.rel.create_index(td.name, c) {
                Ok(()) => Out::Empty,
                Err(_) => Out::Err("RelationalError".into()),
            } };
            mk(text, "relational", "create-index", feats, api, Mode::Exact)
        },
        Op::DropIndex { t, col } => {
            let td = &TABLES[*t as usize % 3];
            let c = td.cols[pick(*col, td.cols.len())].name;
            if matches!(c, "status" | "depth") {
                feats.push("ctx-keyword-in-column-list");
            }
            let text = format!("DROP INDEX ON {}({c})", td.name);
            let api = if dry { Out::Empty } else { match w.rel.drop_index(td.name, c) {
                Ok(()) => Out::Empty,
                Err(_) => Out::Err("RelationalError".into()),
            } };
            mk(text, "relational", "drop-index", feats, api, Mode::Exact)
        },
        Op::Insert { t, explicit_cols, rows, style } => {
            let td = &TABLES[*t as usize % 3];
            let ncol = td.cols.len();
            // explicit column list: a rotation of the schema order (exercises name → value mapping)
            // and possibly a subset: NOT NULL columns always, the others by a mask (contextual-keyword
            // names — refused in column lists, recorded finding — only when both of their mask bits are set)
            let rot = (*style as usize >> 5) % ncol;
            let mask = *style as usize >> 1;
            let order: Vec<usize> = if *explicit_cols {
                (0..ncol)
                    .map(|i| (i + rot) % ncol)
                    .filter(|i| {
                        let cd = &td.cols[*i];
                        if cd.not_null {
                            true
                        } else if matches!(cd.name, "status" | "depth") {
                            mask & 7 == 7
                        } else {
                            (mask >> *i) & 1 == 0 || mask & 12 == 12
                        }
                    })
                    .collect()
            } else {
                (0..ncol).collect()
            };
            // the grammar needs at least one column in the list
            let order = if order.is_empty() { vec![0] } else { order };
            if *explicit_cols && order.iter().any(|i| matches!(td.cols[*i].name, "status" | "depth")) {
                feats.push("ctx-keyword-in-column-list");
            }
            let mut row_texts = Vec::new();
            let mut api_rows = Vec::new();
            let mut neg_row: Option<usize> = None;
            for (ri, r) in rows.iter().enumerate() {
                let mut vals = Vec::new();
                let mut map = HashMap::new();
                for (k, ci) in order.iter().enumerate() {
                    let cd = &td.cols[*ci];
                    let keep = (*style as usize + 3 * ri + 7 * k) % 97 == 0;
                    let mut v = coerce(&r[*ci % r.len()], cd.ty, keep);
                    if cd.not_null && v == Val::Null && (*style as usize + ri) % 5 != 0 {
                        v = coerce(&Val::Int(ri as i64 + 1), cd.ty, false);
                    }
                    if is_negative(&v) {
                        feats.push("negative-literal");
                        neg_row.get_or_insert(ri);
                    }
                    vals.push(lit(&v, *style));
                    map.insert(cd.name.to_string(), to_value(&v));
                }
                row_texts.push(format!("({})", vals.join(", ")));
                api_rows.push(map);
            }
            if let Some(k) = neg_row {
                // a row the text path may refuse goes first, so a refusal leaves no partial effect behind
                row_texts.swap(0, k);
                api_rows.swap(0, k);
            }
            let cols_text = if *explicit_cols { format!(" ({})", order.iter().map(|i| td.cols[*i].name).collect::<Vec<_>>().join(", ")) } else { String::new() };
            let text = format!("{} {}{} {} {}", kw("INSERT INTO", *style), td.name, cols_text, kw("VALUES", *style), row_texts.join(", "));
            if rows.len() > 1 {
                feats.push("multi-row");
            }
            // the statement inserts row by row and stops at the first failing row
            let mut ids = Vec::new();
            let mut api = None;
            for m in api_rows {
                if dry {
                    break;
                }
                match w.rel.insert(td.name, m) {
                    Ok(id) => ids.push(id),
                    Err(_) => {
                        api = Some(Out::Err("RelationalError".into()));
                        break;
                    },
                }
            }
            mk(text, "relational", "insert", feats, api.unwrap_or(Out::Ids(ids)), Mode::Exact)
        },
        Op::Select { t, proj, cond, order, limit, offset, style } => {
            let td = &TABLES[*t as usize % 3];
            let mut info = CondInfo { ne_angle: false, has_neg: false, has_paren: false, mixes_and_or: false, tricky_string: false, blank_run_string: false };
            let rc = cond.as_ref().map(|c| resolve(c, td));
            let mut where_text = String::new();
            if let Some(rc) = &rc {
                where_text.push_str(&format!(" {} ", kw("WHERE", *style)));
                print_cond(rc, *style, &mut info, &mut where_text);
            }
            let mut pcols: Vec<&'static str> = Vec::new();
            for p in proj {
                let c = td.cols[pick(*p, td.cols.len())].name;
                if !pcols.contains(&c) {
                    pcols.push(c);
                }
            }
            // ORDER BY column is always part of the projection
            let ord = order.map(|(c, desc, nulls)| {
                let name = if pcols.is_empty() { td.cols[pick(c, td.cols.len())].name } else { pcols[pick(c, pcols.len())] };
                (name, desc, nulls)
            });
            let proj_text = if pcols.is_empty() { "*".to_string() } else { pcols.join(", ") };
            let mut text = format!("{} {proj_text} {} {}{where_text}", kw("SELECT", *style), kw("FROM", *style), td.name);
            if let Some((name, desc, nulls)) = ord {
                text.push_str(&format!(" {} {name}", kw("ORDER BY", *style)));
                if desc {
                    text.push_str(&kw(" DESC", *style));
                } else if style & 64 != 0 {
                    text.push_str(&kw(" ASC", *style));
                }
                match nulls {
                    1 => text.push_str(&kw(" NULLS FIRST", *style)),
                    2 => text.push_str(&kw(" NULLS LAST", *style)),
                    _ => {},
                }
            }
            if let Some(l) = limit {
                text.push_str(&format!(" {} {l}", kw("LIMIT", *style)));
            }
            if let Some(o) = offset {
                text.push_str(&format!(" {} {o}", kw("OFFSET", *style)));
            }
            if info.has_neg {
                feats.push("negative-literal");
            }
            if info.mixes_and_or {
                feats.push("and-or-mix");
            }
            if info.has_paren {
                feats.push("paren");
            }
            let condition = rc.as_ref().map_or(Condition::True, to_condition);
            let opts = ColumnarScanOptions { projection: if pcols.is_empty() { None } else { Some(pcols.iter().map(|s| (*s).to_string()).collect()) }, prefer_columnar: true };
            let api_rows = if dry { Ok(Vec::new()) } else { w.rel.select_columnar(td.name, condition.clone(), opts) };
            let (lim, off) = (limit.map(usize::from), offset.map_or(0, usize::from));
            let mut st = match api_rows {
                Err(_) => mk(text, "relational", "select", feats, Out::Err("RelationalError".into()), Mode::Exact),
                Ok(rows) => {
                    if let Some((name, desc, nulls)) = ord {
                        let all: Vec<String> = rows.iter().map(row_string).collect();
                        let mut s = mk(text, "relational", "select", feats, Out::Rows(all), Mode::Ordered);
                        s.features.push("order-by");
                        s.ordered = Some((name.to_string(), desc, nulls, off, lim));
                        s
                    } else {
                        // no ORDER BY: OFFSET then LIMIT over the engine's row order
                        let mut v: Vec<String> = rows.iter().skip(off).map(row_string).collect();
                        if let Some(l) = lim {
                            v.truncate(l);
                        }
                        mk(text, "relational", "select", feats, Out::Rows(v), Mode::Exact)
                    }
                },
            };
            // legacy splitter: `SELECT * FROM t [WHERE …] [LIMIT n]` only
            if !dry && pcols.is_empty() && ord.is_none() && offset.is_none() && style & 1 == 0 {
                let leg = match w.rel.select(td.name, condition) {
                    Ok(mut rows) => {
                        if let Some(l) = lim {
                            rows.truncate(l);
                        }
                        Out::Rows(rows.iter().map(row_string).collect())
                    },
                    Err(_) => Out::Err("RelationalError".into()),
                };
                st.legacy = Some(leg);
                if info.blank_run_string {
                    st.features.push("tab-or-blank-run-in-string");
                }
                if info.tricky_string {
                    st.features.push("keyword-or-quote-in-string");
                }
                if info.ne_angle {
                    st.features.push("ne-spelled-<>");
                }
            }
            st
        },
        Op::Join { pair, limit, offset, style } => {
            const PAIRS: [(&str, &str, &str, &str); 4] =
                [("users", "id", "t1", "a"), ("users", "id", "Orders", "k"), ("t1", "a", "Orders", "k"), ("t1", "b", "users", "id")];
            let (a, ca, b, cb) = PAIRS[*pair as usize % PAIRS.len()];
            let mut text = format!("{} * {} {a} {} {b} {} {a}.{ca} = {b}.{cb}", kw("SELECT", *style), kw("FROM", *style), kw("JOIN", *style), kw("ON", *style));
            if let Some(l) = limit {
                text.push_str(&format!(" {} {l}", kw("LIMIT", *style)));
            }
            if let Some(o) = offset {
                text.push_str(&format!(" {} {o}", kw("OFFSET", *style)));
            }
            if limit.is_some() && offset.is_some_and(|o| o > 0) {
                feats.push("join-limit-and-offset");
            }
            let api = if dry {
                Out::Count(0)
            } else {
                match w.rel.join(a, b, ca, cb) {
                    Ok(pairs) => {
                        let after_offset = pairs.len().saturating_sub(offset.map_or(0, usize::from));
                        Out::Count(limit.map_or(after_offset, |l| after_offset.min(usize::from(l))))
                    },
                    Err(_) => Out::Err("RelationalError".into()),
                }
            };
            mk(text, "relational", "join", feats, api, Mode::RowCount)
        },
        Op::Update { t, sets, cond, style } => {
            let td = &TABLES[*t as usize % 3];
            let mut info = CondInfo { ne_angle: false, has_neg: false, has_paren: false, mixes_and_or: false, tricky_string: false, blank_run_string: false };
            let rc = cond.as_ref().map(|c| resolve(c, td));
            let mut map = HashMap::new();
            let mut parts = Vec::new();
            for (c, v) in sets {
                let cd = &td.cols[pick(*c, td.cols.len())];
                if map.contains_key(cd.name) {
                    continue;
                }
                if matches!(cd.name, "status" | "depth") {
                    feats.push("ctx-keyword-in-column-list");
                }
                let v = coerce(v, cd.ty, false);
                if is_negative(&v) {
                    feats.push("negative-literal");
                }
                parts.push(format!("{} = {}", cd.name, lit(&v, *style)));
                map.insert(cd.name.to_string(), to_value(&v));
            }
            let mut text = format!("{} {} {} {}", kw("UPDATE", *style), td.name, kw("SET", *style), parts.join(", "));
            if let Some(rc) = &rc {
                text.push_str(&format!(" {} ", kw("WHERE", *style)));
                print_cond(rc, *style, &mut info, &mut text);
            }
            if info.has_neg {
                feats.push("negative-literal");
            }
            if info.mixes_and_or {
                feats.push("and-or-mix");
            }
            let api = if dry { Out::Empty } else { match w.rel.update(td.name, rc.as_ref().map_or(Condition::True, to_condition), map) {
                Ok(n) => Out::Count(n),
                Err(_) => Out::Err("RelationalError".into()),
            } };
            mk(text, "relational", "update", feats, api, Mode::Exact)
        },
        Op::Delete { t, cond, style } => {
            let td = &TABLES[*t as usize % 3];
            let mut info = CondInfo { ne_angle: false, has_neg: false, has_paren: false, mixes_and_or: false, tricky_string: false, blank_run_string: false };
            let rc = cond.as_ref().map(|c| resolve(c, td));
            let mut text = format!("{} {}", kw("DELETE FROM", *style), td.name);
            if let Some(rc) = &rc {
                text.push_str(&format!(" {} ", kw("WHERE", *style)));
                print_cond(rc, *style, &mut info, &mut text);
            }
            if info.has_neg {
                feats.push("negative-literal");
            }
            if info.mixes_and_or {
                feats.push("and-or-mix");
            }
            let api = if dry { Out::Empty } else { match w.rel.delete_rows(td.name, rc.as_ref().map_or(Condition::True, to_condition)) {
                Ok(n) => Out::Count(n),
                Err(_) => Out::Err("RelationalError".into()),
            } };
            mk(text, "relational", "delete", feats, api, Mode::Exact)
        },
        Op::ShowTables => {
            let mut t = w.rel.list_tables();
            t.sort();
            mk("SHOW TABLES".into(), "relational", "show-tables", feats, Out::Tables(t), Mode::Exact)
        },
        Op::NodeCreate { label, props, style } => {
            let l = LABELS[*label as usize % LABELS.len()];
            let (ptext, map) = props_text(props, *style, &mut feats);
            let text = format!("{} {l}{ptext}", kw("NODE CREATE", *style));
            let api = if dry { Out::Empty } else { match w.graph.create_node(l, map) {
                Ok(id) => {
                    w.max_node = w.max_node.max(id);
                    Out::Ids(vec![id])
                },
                Err(_) => Out::Err("GraphError".into()),
            } };
            mk(text, "graph", "node-create", feats, api, Mode::Exact)
        },
        Op::NodeGet { id } => {
            let nid = node_id(w, *id);
            let api = if dry { Out::Empty } else { match w.graph.get_node(nid) {
                Ok(n) => Out::Nodes(vec![(n.id, n.labels.join(":"), n.properties.iter().map(|(k, v)| (k.clone(), prop_string(v))).collect())]),
                Err(_) => Out::Err("GraphError".into()),
            } };
            let mut s = mk(format!("NODE GET {nid}"), "graph", "node-get", feats, api.clone(), Mode::Exact);
            s.legacy = Some(api);
            s
        },
        Op::NodeDelete { id } => {
            let nid = node_id(w, *id);
            let api = if dry { Out::Empty } else { match w.graph.delete_node(nid) {
                Ok(()) => Out::Count(1),
                Err(_) => Out::Err("GraphError".into()),
            } };
            mk(format!("NODE DELETE {nid}"), "graph", "node-delete", feats, api, Mode::Exact)
        },
        Op::NodeList { label, limit, offset } => {
            let l = label.map(|l| LABELS[l as usize % LABELS.len()]);
            let mut text = "NODE LIST".to_string();
            if let Some(l) = l {
                text.push_str(&format!(" {l}"));
            }
            if let Some(n) = limit {
                text.push_str(&format!(" LIMIT {n}"));
            }
            if let Some(n) = offset {
                text.push_str(&format!(" OFFSET {n}"));
            }
            // the listing has no documented order: every live node with the label, by direct get_node calls
            let mut all = BTreeSet::new();
            for id in 1..=w.max_node {
                if let Ok(n) = w.graph.get_node(id) {
                    if l.is_none_or(|l| n.has_label(l)) {
                        all.insert(format!("{}", n.id));
                    }
                }
            }
            let total = all.len();
            let expect = total.saturating_sub(offset.map_or(0, usize::from)).min(limit.map_or(1000, usize::from));
            let mut s = mk(text, "graph", "node-list", feats, Out::Empty, Mode::Listing);
            s.listing = Some((all, expect));
            s
        },
        Op::EdgeCreate { from, to, ty, props, style } => {
            let (f, t) = (node_id(w, *from), node_id(w, *to));
            let et = ETYPES[*ty as usize % ETYPES.len()];
            let (ptext, map) = props_text(props, *style, &mut feats);
            let arrow = if style & 2 != 0 { "->" } else { " -> " };
            let text = format!("{} {f}{arrow}{t} : {et}{ptext}", kw("EDGE CREATE", *style));
            let api = if dry { Out::Empty } else { match w.graph.create_edge(f, t, et, map, true) {
                Ok(id) => {
                    w.max_edge = w.max_edge.max(id);
                    Out::Ids(vec![id])
                },
                Err(_) => Out::Err("GraphError".into()),
            } };
            mk(text, "graph", "edge-create", feats, api, Mode::Exact)
        },
        Op::EdgeGet { id } => {
            let eid = edge_id(w, *id);
            let api = if dry { Out::Empty } else { match w.graph.get_edge(eid) {
                Ok(e) => Out::Edges(vec![(e.id, e.from, e.to, e.edge_type)]),
                Err(_) => Out::Err("GraphError".into()),
            } };
            let mut s = mk(format!("EDGE GET {eid}"), "graph", "edge-get", feats, api.clone(), Mode::Exact);
            s.legacy = Some(api);
            s
        },
        Op::EdgeDelete { id } => {
            let eid = edge_id(w, *id);
            let api = if dry { Out::Empty } else { match w.graph.delete_edge(eid) {
                Ok(()) => Out::Count(1),
                Err(_) => Out::Err("GraphError".into()),
            } };
            mk(format!("EDGE DELETE {eid}"), "graph", "edge-delete", feats, api, Mode::Exact)
        },
        Op::EdgeList { ty, limit, offset } => {
            let et = ty.map(|t| ETYPES[t as usize % ETYPES.len()]);
            let mut text = "EDGE LIST".to_string();
            if let Some(t) = et {
                text.push_str(&format!(" {t}"));
            }
            if let Some(n) = limit {
                text.push_str(&format!(" LIMIT {n}"));
            }
            if let Some(n) = offset {
                text.push_str(&format!(" OFFSET {n}"));
            }
            let mut all = BTreeSet::new();
            for id in 1..=w.max_edge {
                if let Ok(e) = w.graph.get_edge(id) {
                    if et.is_none_or(|t| e.edge_type == t) {
                        all.insert(format!("{}", e.id));
                    }
                }
            }
            let total = all.len();
            let expect = total.saturating_sub(offset.map_or(0, usize::from)).min(limit.map_or(1000, usize::from));
            let mut s = mk(text, "graph", "edge-list", feats, Out::Empty, Mode::Listing);
            s.listing = Some((all, expect));
            s
        },
        Op::Neighbors { id, dir, ty } => {
            let nid = node_id(w, *id);
            let et = ty.map(|t| ETYPES[t as usize % ETYPES.len()]);
            let mut text = format!("NEIGHBORS {nid}");
            // the reference grammar: NEIGHBORS id [OUTGOING|INCOMING|BOTH] [: edge_type]; the parser documents OUTGOING as the default
            let d = match dir {
                Some(0) => {
                    text.push_str(" OUTGOING");
                    Direction::Outgoing
                },
                Some(1) => {
                    text.push_str(" INCOMING");
                    Direction::Incoming
                },
                Some(_) => {
                    text.push_str(" BOTH");
                    Direction::Both
                },
                None => Direction::Outgoing,
            };
            if let Some(t) = et {
                text.push_str(&format!(" : {t}"));
            }
            let api = if dry { Out::Empty } else { match w.graph.neighbors(nid, et, d, None) {
                Ok(ns) => {
                    let mut v: Vec<u64> = ns.iter().map(|n| n.id).collect();
                    v.sort_unstable();
                    Out::Ids(v)
                },
                Err(_) => Out::Err("GraphError".into()),
            } };
            let mut s = mk(text, "graph", "neighbors", feats, api.clone(), Mode::Unordered);
            if et.is_none() && matches!(dir, Some(2)) {
                // `NEIGHBORS n BOTH` is the one spelling both dialects document
                s.legacy = Some(api);
            }
            s
        },
        Op::Path { from, to, shortest_kw } => {
            let (f, t) = (node_id(w, *from), node_id(w, *to));
            let text = format!("PATH {}{f} -> {t}", if *shortest_kw { "SHORTEST " } else { "" });
            let api = if dry { Out::Empty } else { match w.graph.find_path(f, t, None) {
                Ok(p) => Out::Path(p.nodes),
                Err(GraphError::PathNotFound) => Out::Path(vec![]),
                Err(_) => Out::Err("GraphError".into()),
            } };
            let mut s = mk(text, "graph", "path", feats, api.clone(), Mode::PathLen);
            if !*shortest_kw {
                s.legacy = Some(api);
            }
            s
        },
        Op::EmbedStore { key, vec } => {
            let k = EKEYS[*key as usize % EKEYS.len()];
            if vec.iter().any(|q| *q < 0) {
                feats.push("negative-literal");
            }
            let api = if dry { Out::Empty } else { match w.vector.store_embedding(k, vec_f32(vec)) {
                Ok(()) => Out::Empty,
                Err(_) => Out::Err("VectorError".into()),
            } };
            mk(format!("EMBED STORE '{k}' {}", vec_text(vec)), "vector", "embed-store", feats, api, Mode::Exact)
        },
        Op::EmbedGet { key } => {
            let k = EKEYS[*key as usize % EKEYS.len()];
            let api = if dry { Out::Empty } else { match w.vector.get_embedding(k) {
                Ok(v) => Out::Value(format!("{v:?}")),
                Err(_) => Out::Err("VectorError".into()),
            } };
            mk(format!("EMBED GET '{k}'"), "vector", "embed-get", feats, api, Mode::Exact)
        },
        Op::EmbedDelete { key } => {
            let k = EKEYS[*key as usize % EKEYS.len()];
            let api = if dry { Out::Empty } else { match w.vector.delete_embedding(k) {
                Ok(()) => Out::Count(1),
                Err(_) => Out::Err("VectorError".into()),
            } };
            mk(format!("EMBED DELETE '{k}'"), "vector", "embed-delete", feats, api, Mode::Exact)
        },
        Op::EmbedBatch { items } => {
            let mut items: Vec<&(u8, Vec<i16>)> = items.iter().collect();
            // an item the text path may refuse goes first (no partial effect on refusal)
            items.sort_by_key(|(_, v)| !v.iter().any(|q| *q < 0));
            let mut parts = Vec::new();
            for (key, vec) in &items {
                let k = EKEYS[*key as usize % EKEYS.len()];
                if vec.iter().any(|q| *q < 0) {
                    feats.push("negative-literal");
                }
                parts.push(format!("('{k}', {})", vec_text(vec)));
            }
            let mut count = 0usize;
            let mut api = None;
            for (key, vec) in &items {
                if dry {
                    break;
                }
                let k = EKEYS[*key as usize % EKEYS.len()];
                match w.vector.store_embedding(k, vec_f32(vec)) {
                    Ok(()) => count += 1,
                    Err(_) => {
                        api = Some(Out::Err("VectorError".into()));
                        break;
                    },
                }
            }
            mk(format!("EMBED BATCH [{}]", parts.join(", ")), "vector", "embed-batch", feats, api.unwrap_or(Out::Count(count)), Mode::Exact)
        },
        Op::Similar { query, limit, metric } => {
            let mut text = "SIMILAR ".to_string();
            let q: Result<Vec<f32>, ()> = match query {
                Query::Key(k) => {
                    let k = EKEYS[*k as usize % EKEYS.len()];
                    text.push_str(&format!("'{k}'"));
                    if dry {
                        Err(())
                    } else {
                        w.vector.get_embedding(k).map_err(|_| ())
                    }
                },
                Query::Vector(v) => {
                    if v.iter().any(|q| *q < 0) {
                        feats.push("negative-literal");
                    }
                    text.push_str(&vec_text(v));
                    Ok(vec_f32(v))
                },
            };
            if let Some(l) = limit {
                text.push_str(&format!(" LIMIT {l}"));
            }
            let m = match metric {
                Some(0) => {
                    text.push_str(" COSINE");
                    DistanceMetric::Cosine
                },
                Some(1) => {
                    text.push_str(" EUCLIDEAN");
                    DistanceMetric::Euclidean
                },
                Some(_) => {
                    text.push_str(" DOT_PRODUCT");
                    DistanceMetric::DotProduct
                },
                None => DistanceMetric::Cosine,
            };
            let top_k = limit.map_or(10, usize::from);
            let api = match q {
                _ if dry => Out::Empty,
                Err(()) => Out::Err("VectorError".into()),
                Ok(qv) => match w.vector.search_similar_with_metric(&qv, top_k, m) {
                    Ok(rs) => Out::Similar(rs.into_iter().map(|r| (r.key, r.score.to_bits())).collect()),
                    Err(_) => Out::Err("VectorError".into()),
                },
            };
            let mut s = mk(text, "vector", "similar", feats, api.clone(), Mode::Scores);
            if matches!(query, Query::Vector(_)) && limit.is_none() && metric.is_none() {
                s.legacy = Some(api);
            }
            s
        },
        Op::CountEmbeddings => {
            let n = w.vector.list_keys().len();
            mk("COUNT EMBEDDINGS".into(), "vector", "count-embeddings", feats, Out::Count(n), Mode::Exact)
        },
    }
}

/// Feature tags that identify a root cause; `which` selects the tags meaningful for the kind of failure.
fn sig_features_of(st: &Step, which: &[&str]) -> String {
    let mut f: Vec<&str> = st.features.iter().copied().filter(|f| which.contains(f)).collect();
    f.sort_unstable();
    f.dedup();
    if f.is_empty() {
        String::new()
    } else {
        format!(":{}", f.join("+"))
    }
}

fn sig_features(st: &Step) -> String {
    sig_features_of(st, &["if-not-exists-on-existing", "if-exists-on-missing"])
}

fn compare(st: &Step, got: &Out) -> Result<(), (String, String)> {
    let fam = st.kind;
    let feats = sig_features(st);
    let differ = |what: &str| Err((format!("result-differs:{fam}{feats}"), format!("`{}`: {what}; text path = {}, direct call = {}", st.text, short(got), short(&st.api))));
    match st.mode {
        Mode::Exact => {
            if got != &st.api {
                return differ("results differ");
            }
        },
        Mode::Unordered => match (got, &st.api) {
            (Out::Ids(a), Out::Ids(b)) => {
                let mut a = a.clone();
                a.sort_unstable();
                if &a != b {
                    return differ("neighbour sets differ");
                }
            },
            (a, b) if a == b => {},
            _ => return differ("results differ"),
        },
        Mode::PathLen => match (got, &st.api) {
            (Out::Path(a), Out::Path(b)) => {
                if a.len() != b.len() || a.first() != b.first() || a.last() != b.last() {
                    return differ("paths differ in length or end points");
                }
            },
            (a, b) if a == b => {},
            _ => return differ("results differ"),
        },
        Mode::Scores => match (got, &st.api) {
            (Out::Similar(a), Out::Similar(b)) => {
                let sa: Vec<u32> = a.iter().map(|x| x.1).collect();
                let sb: Vec<u32> = b.iter().map(|x| x.1).collect();
                if sa != sb {
                    return differ("similarity scores differ");
                }
                if let Some(min) = sb.last() {
                    let ka: BTreeSet<&String> = a.iter().filter(|x| x.1 != *min).map(|x| &x.0).collect();
                    let kb: BTreeSet<&String> = b.iter().filter(|x| x.1 != *min).map(|x| &x.0).collect();
                    if ka != kb {
                        return differ("keys above the lowest returned score differ");
                    }
                }
            },
            (a, b) if a == b => {},
            _ => return differ("results differ"),
        },
        Mode::Listing => {
            let (all, expect) = st.listing.as_ref().expect("listing");
            let ids: Vec<String> = match got {
                Out::Nodes(v) => v.iter().map(|n| n.0.to_string()).collect(),
                Out::Edges(v) => v.iter().map(|e| e.0.to_string()).collect(),
                _ => return Err((format!("result-differs:{fam}"), format!("`{}` returned {} instead of a listing", st.text, short(got)))),
            };
            let set: BTreeSet<&String> = ids.iter().collect();
            if ids.len() != *expect || set.len() != ids.len() || !ids.iter().all(|i| all.contains(i)) {
                return Err((
                    format!("result-differs:{fam}"),
                    format!("`{}` listed {ids:?}; expected {expect} distinct members of {all:?}", st.text),
                ));
            }
        },
        Mode::Ordered => return check_ordered(st, got),
        Mode::RowCount => match (got, &st.api) {
            (Out::Rows(rows), Out::Count(n)) => {
                if rows.len() != *n {
                    return differ("number of joined rows differs from the direct call's pairs windowed by OFFSET then LIMIT");
                }
            },
            (Out::Err(a), Out::Err(b)) if a == b => {},
            _ => return differ("results differ"),
        },
    }
    Ok(())
}

/// ORDER BY [ASC|DESC] [NULLS FIRST|LAST] [OFFSET] [LIMIT] over the rows the direct call returns.
fn check_ordered(st: &Step, got: &Out) -> Result<(), (String, String)> {
    let (col, desc, nulls, off, lim) = st.ordered.clone().expect("ordered");
    let Out::Rows(all) = &st.api else { unreachable!() };
    let Out::Rows(rows) = got else {
        return Err((format!("result-differs:{}:order-by", st.kind), format!("`{}` returned {} instead of rows", st.text, short(got))));
    };
    let expect_n = all.len().saturating_sub(off).min(lim.unwrap_or(usize::MAX));
    // key of a printed row: the `("col", Value)` fragment of its Debug form
    let key = |r: &String| -> Option<String> {
        let pat = format!("(\"{col}\", ");
        let i = r.find(&pat)? + pat.len();
        let rest = &r[i..];
        // value ends at the matching ")" of the pair; values are Null | Int(..) | Float(..) | String("..") | Bool(..)
        let end = if rest.starts_with("String(") {
            let mut esc = false;
            let mut idx = None;
            for (k, c) in rest.char_indices().skip(8) {
                if esc {
                    esc = false;
                } else if c == '\\' {
                    esc = true;
                } else if c == '"' {
                    idx = Some(k + 2);
                    break;
                }
            }
            idx?
        } else if rest.starts_with("Null") {
            4
        } else {
            rest.find(')')? + 1
        };
        Some(rest[..end].to_string())
    };
    let fail = |what: String| Err((format!("result-differs:{}:order-by{}", st.kind, sig_features(st)), format!("`{}`: {what}; text path = {}, matching rows = {}", st.text, short(got), short(&st.api))));
    if rows.len() != expect_n {
        return fail(format!("{} rows returned, {expect_n} expected", rows.len()));
    }
    let allset: BTreeMap<&String, usize> = all.iter().fold(BTreeMap::new(), |mut m, r| {
        *m.entry(r).or_insert(0) += 1;
        m
    });
    if !rows.iter().all(|r| allset.contains_key(r)) {
        return fail("a returned row is not among the matching rows".into());
    }
    // compare sort keys with the harness's own ordering: numbers numerically, strings bytewise, false < true
    #[derive(PartialEq, PartialOrd, Debug, Clone)]
    enum K {
        Null,
        Num(f64),
        Str(String),
        Bool(bool),
    }
    let parse = |s: &str| -> K {
        if s == "Null" {
            K::Null
        } else if let Some(x) = s.strip_prefix("Int(") {
            K::Num(x.trim_end_matches(')').parse::<i64>().map(|v| v as f64).unwrap_or(f64::NAN))
        } else if let Some(x) = s.strip_prefix("Float(") {
            K::Num(x.trim_end_matches(')').parse::<f64>().unwrap_or(f64::NAN))
        } else if let Some(x) = s.strip_prefix("Bool(") {
            K::Bool(x.starts_with("true"))
        } else {
            // undo Debug escaping for the comparison
            let inner = s.trim_start_matches("String(\"").trim_end_matches("\")");
            // left to right, every escape Debug produces (\" \' \\ \t \n \r \0 \u{..})
            let mut out = String::new();
            let mut it = inner.chars().peekable();
            while let Some(ch) = it.next() {
                if ch != '\\' {
                    out.push(ch);
                    continue;
                }
                match it.next() {
                    Some('t') => out.push('\t'),
                    Some('n') => out.push('\n'),
                    Some('r') => out.push('\r'),
                    Some('0') => out.push('\0'),
                    Some('u') => {
                        let hex: String = it.by_ref().skip(1).take_while(|c| *c != '}').collect();
                        out.push(u32::from_str_radix(&hex, 16).ok().and_then(char::from_u32).unwrap_or('\u{fffd}'));
                    },
                    Some(other) => out.push(other),
                    None => out.push('\\'),
                }
            }
            K::Str(out)
        }
    };
    let keys_all: Vec<K> = all.iter().filter_map(|r| key(r)).map(|s| parse(&s)).collect();
    let keys_got: Vec<K> = rows.iter().filter_map(|r| key(r)).map(|s| parse(&s)).collect();
    if keys_got.len() != rows.len() || keys_all.len() != all.len() {
        return Ok(()); // sort column not printed (cannot happen: it is part of the projection)
    }
    // expected key sequence: stable by construction because only keys are compared
    let mut non_null: Vec<K> = keys_all.iter().filter(|k| **k != K::Null).cloned().collect();
    non_null.sort_by(|a, b| a.partial_cmp(b).unwrap_or(std::cmp::Ordering::Equal));
    if desc {
        non_null.reverse();
    }
    let n_null = keys_all.len() - non_null.len();
    let got_non_null: Vec<K> = keys_got.iter().filter(|k| **k != K::Null).cloned().collect();
    match nulls {
        0 => {
            // placement of NULLs unspecified: the non-null keys must form a sorted run
            let mut sorted = got_non_null.clone();
            sorted.sort_by(|a, b| a.partial_cmp(b).unwrap_or(std::cmp::Ordering::Equal));
            if desc {
                sorted.reverse();
            }
            if sorted != got_non_null {
                return fail(format!("non-null keys are not in {} order", if desc { "descending" } else { "ascending" }));
            }
            if off == 0 && lim.is_none() && got_non_null != non_null {
                return fail("the sorted keys differ from the sorted keys of the matching rows".into());
            }
        },
        n => {
            let mut expect: Vec<K> = Vec::new();
            if n == 1 {
                expect.extend(std::iter::repeat_n(K::Null, n_null));
                expect.extend(non_null);
            } else {
                expect.extend(non_null);
                expect.extend(std::iter::repeat_n(K::Null, n_null));
            }
            let expect: Vec<K> = expect.into_iter().skip(off).take(lim.unwrap_or(usize::MAX)).collect();
            if expect != keys_got {
                let f = if desc { "desc" } else { "asc" };
                return Err((
                    format!("result-differs:{}:order-by:nulls-{}:{f}", st.kind, if n == 1 { "first" } else { "last" }),
                    format!("`{}`: sort keys {keys_got:?}, expected {expect:?}", st.text),
                ));
            }
        },
    }
    Ok(())
}

/// Final read-out: both stores through the engine APIs.
fn readout(w: &World) -> Result<(), (String, String)> {
    let r = &w.router;
    let mut ta = r.relational().list_tables();
    let mut tb = w.rel.list_tables();
    ta.sort();
    tb.sort();
    if ta != tb {
        return Err(("readout:tables".into(), format!("tables after the sequence: text side {ta:?}, direct side {tb:?}")));
    }
    for t in &ta {
        let norm = |rows: Vec<Row>| {
            let mut v: Vec<String> = rows.iter().map(row_string).collect();
            v.sort();
            v
        };
        let a = r.relational().select(t, Condition::True).map(norm).map_err(|e| e.to_string());
        let b = w.rel.select(t, Condition::True).map(norm).map_err(|e| e.to_string());
        if a != b {
            return Err(("readout:rows".into(), format!("rows of {t}: text side {a:?}, direct side {b:?}")));
        }
        for td in &TABLES {
            if td.name == t {
                for c in td.cols {
                    if r.relational().has_index(t, c.name) != w.rel.has_index(t, c.name) {
                        return Err(("readout:index".into(), format!("index on {t}.{} exists on one side only", c.name)));
                    }
                }
            }
        }
    }
    for id in 1..=w.max_node + 1 {
        let f = |g: &GraphEngine| g.get_node(id).map(|n| (n.labels.clone(), n.properties.iter().map(|(k, v)| (k.clone(), format!("{v:?}"))).collect::<BTreeMap<_, _>>())).map_err(|_| ());
        if f(r.graph()) != f(&w.graph) {
            return Err(("readout:node".into(), format!("node {id}: text side {:?}, direct side {:?}", f(r.graph()), f(&w.graph))));
        }
    }
    for id in 1..=w.max_edge + 1 {
        let f = |g: &GraphEngine| g.get_edge(id).map(|e| (e.from, e.to, e.edge_type.clone(), e.directed, e.properties.iter().map(|(k, v)| (k.clone(), format!("{v:?}"))).collect::<BTreeMap<_, _>>())).map_err(|_| ());
        if f(r.graph()) != f(&w.graph) {
            return Err(("readout:edge".into(), format!("edge {id}: text side {:?}, direct side {:?}", f(r.graph()), f(&w.graph))));
        }
    }
    let keys = |v: &VectorEngine| {
        let mut k = v.list_keys();
        k.sort();
        k
    };
    if keys(r.vector()) != keys(&w.vector) {
        return Err(("readout:embedding-keys".into(), format!("embedding keys: text side {:?}, direct side {:?}", keys(r.vector()), keys(&w.vector))));
    }
    for k in keys(&w.vector) {
        let a = r.vector().get_embedding(&k).map_err(|_| ());
        let b = w.vector.get_embedding(&k).map_err(|_| ());
        if a != b {
            return Err(("readout:embedding".into(), format!("embedding {k}: text side {a:?}, direct side {b:?}")));
        }
    }
    Ok(())
}

pub fn check(c: &StmtCase, ctx: &mut CaseCtx) -> Result<(), Fail> {
    let mut w = World::new();
    // half of the routers answer repeated read statements from the query cache: a cached answer
    // must still be the answer of the direct call
    if c.style & 4 != 0 {
        w.router.init_cache();
        ctx.label("router with query cache");
    }
    let mut returned_rows = 0usize;
    let mut n_ok = 0usize;
    let mut diverged = false;
    let mut prologue: Vec<Op> = (0u8..3).map(|t| Op::CreateTable { t, if_not_exists: false, style: c.style.wrapping_add(t) }).collect();
    prologue.extend((0u8..3).map(|label| Op::NodeCreate { label, props: vec![], style: c.style.wrapping_add(label) }));
    // a SELECT whose condition holds a string with inner white space is followed at once by its
    // twin (the same statement with "a b" <-> "a  b" <-> "a\tb"): two different statements that a
    // router may not confuse (e.g. in its query cache)
    let mut expanded: Vec<Op> = Vec::new();
    for op in prologue.iter().chain(c.setup.iter()).chain(c.ops.iter()) {
        expanded.push(op.clone());
        if let Op::Select { t, proj, cond: Some(cd), order, limit, offset, style } = op {
            if let Some(tw) = twin_cond(cd) {
                expanded.push(Op::Select { t: *t, proj: proj.clone(), cond: Some(tw), order: *order, limit: *limit, offset: *offset, style: *style });
                ctx.label("select followed by its white-space twin");
            }
        }
    }
    for op in expanded.iter() {
        // 1. the text, on the router
        let plan = step(op, &mut w, true);
        let got = out_of(w.router.execute_parsed(&plan.text));
        ctx.label(format!("stmt:{}", plan.kind));
        ctx.label(format!("family:{}", plan.family));
        for f in &plan.features {
            ctx.label(format!("feature:{f}"));
        }
        // a well-formed statement the text path refuses before reaching an engine
        if let Out::Err(e) = &got {
            if !matches!(e.as_str(), "RelationalError" | "GraphError" | "VectorError") {
                ctx.label(format!("text-rejected:{}", plan.kind));
                let sig = if plan.features.contains(&"negative-literal") {
                    // one root cause per family: the literal converters see Unary(Neg, literal)
                    format!("text-rejected:negative-literal:{}", plan.family)
                } else {
                    format!("text-rejected:{}{}", plan.kind, sig_features_of(&plan, &["ctx-keyword-in-column-list"]))
                };
                ctx.fail(
                    sig,
                    format!("the well-formed statement `{}` was rejected by the text path: {e}", plan.text),
                )?;
                // recorded finding: nothing was executed on the text side (refusable parts come first
                // in the statement), so the direct call is skipped and both sides stay in step
                continue;
            }
        }
        // 2. the equivalent direct engine call(s), on the twin
        let st = step(op, &mut w, false);
        // read-only statements the legacy splitter documents too (same router, no effect on state)
        if let Some(expect) = &st.legacy {
            match out_of(w.router.execute(&st.text)) {
                Out::Err(_) => ctx.label(format!("legacy-execute:rejects:{}", st.kind)),
                got => {
                    ctx.label(format!("legacy-execute:accepts:{}", st.kind));
                    let same = match (&got, expect) {
                        (Out::Ids(a), Out::Ids(b)) => {
                            let mut a = a.clone();
                            a.sort_unstable();
                            &a == b
                        },
                        (Out::Path(a), Out::Path(b)) => a.len() == b.len(),
                        (Out::Similar(a), Out::Similar(b)) => a.iter().map(|x| x.1).collect::<Vec<_>>() == b.iter().map(|x| x.1).collect::<Vec<_>>(),
                        (a, b) => a == b,
                    };
                    if !same {
                        // one root cause per signature, most specific first
                        let f = ["paren", "ne-spelled-<>", "keyword-or-quote-in-string", "tab-or-blank-run-in-string", "and-or-mix"]
                            .iter()
                            .find(|t| st.features.contains(t))
                            .map_or(String::new(), |t| format!(":{t}"));
                        ctx.fail(
                            format!("legacy-execute:{}{f}", st.kind),
                            format!("QueryRouter::execute(`{}`) = {} but the direct call gives {}", st.text, short(&got), short(expect)),
                        )?;
                    }
                },
            }
        }
        match &got {
            Out::Err(_) => ctx.label(format!("err:{}", st.kind)),
            _ => {
                n_ok += 1;
                ctx.label(format!("ok:{}", st.kind));
            },
        }
        let n = rows_returned(&got);
        // the stated rule counts reading statements (a query that returned data), not the id a write reports
        let reads = matches!(st.kind, "select" | "node-get" | "node-list" | "edge-get" | "edge-list" | "neighbors" | "path" | "similar" | "show-tables");
        if n >= 1 && reads {
            returned_rows += 1;
            ctx.label(format!("rows>=1:{}", st.kind));
        }
        if let Err((sig, msg)) = compare(&st, &got) {
            ctx.fail(sig.clone(), msg)?;
            // a recorded finding; state-changing divergences end the comparison of this sequence
            if !(sig.contains("order-by") || sig.contains("if-not-exists") || sig.contains("if-exists")) {
                diverged = true;
                break;
            }
        }
    }
    if returned_rows >= 1 {
        ctx.set_nontrivial();
    }
    ctx.label(format!("ok-statements:{}", match n_ok {
        0..=4 => "0-4",
        5..=9 => "5-9",
        10..=19 => "10-19",
        _ => "20+",
    }));
    if !diverged {
        if let Err((sig, msg)) = readout(&w) {
            ctx.fail(sig, msg)?;
        }
    } else {
        ctx.label("cut-short-by-known-finding");
    }
    Ok(())
}

/// Child `stmts-bench`: rough cost split of the interpreter (used while tuning case counts).
pub fn bench_child(_args: &[String]) -> i32 {
    let t0 = std::time::Instant::now();
    for _ in 0..200 {
        let w = World::new();
        std::hint::black_box(&w.max_node);
    }
    println!("World::new x200: {:?}", t0.elapsed());
    let w = World::new();
    let t0 = std::time::Instant::now();
    for _ in 0..200 {
        let _ = w.router.execute_parsed("NODE LIST");
    }
    println!("NODE LIST x200: {:?}", t0.elapsed());
    let _ = w.router.execute_parsed("CREATE TABLE t1 (a INT, b INT, c TEXT)");
    let t0 = std::time::Instant::now();
    for i in 0..200 {
        let _ = w.router.execute_parsed(&format!("INSERT INTO t1 VALUES ({i}, 1, 'x')"));
    }
    println!("INSERT x200: {:?}", t0.elapsed());
    let t0 = std::time::Instant::now();
    for _ in 0..200 {
        let _ = w.router.execute_parsed("SELECT * FROM t1 WHERE a < 5 OR b = 1");
    }
    println!("SELECT x200: {:?}", t0.elapsed());
    0
}
