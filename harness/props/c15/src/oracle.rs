//! Oracle 1: totality, determinism and error positions of the four public entry points.
//!
//! For one input string: every entry point returns (no panic); an `Err` carries a span with
//! `start <= end <= input.len()`; `ParseError::format_with_source` (what `QueryRouter` calls on every
//! parse error) does not panic on it; calling the entry point a second time gives an equal result;
//! `parse` agrees with the first statement of `parse_all`; the two expression parsers of the crate
//! (`expr.rs` behind `parse_expr`, `parser.rs` behind `parse`) agree on an expression both accept.
//!
//! Stack exhaustion cannot be caught in-process: the callers that feed adversarial nesting run this
//! function in a child process and interpret the exit status.

use crate::OFail;
use neumann_parser::{ParseError, Statement, StatementKind, Token};
use std::panic::{catch_unwind, AssertUnwindSafe};

pub const LEX: u8 = 1;
pub const PARSE: u8 = 2;
pub const PARSE_ALL: u8 = 4;
pub const EXPR: u8 = 8;
/// parse vs parse_all, parse_expr vs `SELECT <expr>`
pub const DIFF: u8 = 16;
pub const ALL: u8 = 31;

#[derive(Clone, Debug, Default)]
pub struct Info {
    pub tokens: usize,
    pub keyword_tokens: usize,
    pub error_tokens: usize,
    pub parse_ok: Option<bool>,
    pub parse_kind: Option<String>,
    pub parse_all_stmts: Option<usize>,
    pub expr_ok: Option<bool>,
    pub too_deep: bool,
    pub err_kinds: Vec<String>,
    pub expr_diff_compared: bool,
}

fn panic_msg(p: &Box<dyn std::any::Any + Send>) -> String {
    if let Some(s) = p.downcast_ref::<&str>() {
        (*s).to_string()
    } else if let Some(s) = p.downcast_ref::<String>() {
        s.clone()
    } else {
        "non-string panic".to_string()
    }
}

fn guarded<T>(api: &str, input: &str, f: impl FnOnce() -> T) -> Result<T, OFail> {
    catch_unwind(AssertUnwindSafe(f))
        .map_err(|p| OFail::new(format!("panic:{api}"), format!("{api} panicked: {} on input {}", panic_msg(&p), show(input))))
}

/// Bounded, escaped rendering of an input for messages.
pub fn show(s: &str) -> String {
    let mut out: String = s.chars().take(300).flat_map(|c| c.escape_debug()).collect();
    if s.chars().count() > 300 {
        out.push_str(&format!("…(+{} bytes)", s.len()));
    }
    format!("\"{out}\"")
}

type ErrKey = (String, u32, u32, Option<String>);

fn err_key(e: &ParseError) -> ErrKey {
    (format!("{:?}", e.kind), e.span.start.0, e.span.end.0, e.help.clone())
}

fn kind_name(e: &ParseError) -> String {
    let d = format!("{:?}", e.kind);
    d.split(|c: char| !c.is_ascii_alphanumeric()).next().unwrap_or("").to_string()
}

fn check_err(api: &str, input: &str, e: &ParseError, info: &mut Info) -> Result<(), OFail> {
    let (s, t) = (e.span.start.0 as usize, e.span.end.0 as usize);
    if s > t {
        return Err(OFail::new(
            format!("span:err-inverted:{api}"),
            format!("{api}: error span {s}..{t} has start > end ({:?}) on input {}", e.kind, show(input)),
        ));
    }
    if t > input.len() {
        return Err(OFail::new(
            format!("span:err-past-end:{api}"),
            format!("{api}: error span {s}..{t} ends past the input (len {}) ({:?}) on input {}", input.len(), e.kind, show(input)),
        ));
    }
    // the router formats every parse error with the source text
    guarded(&format!("format_with_source:{api}"), input, || {
        let _ = e.format_with_source(input);
        let _ = e.to_string();
    })?;
    let k = kind_name(e);
    if k == "TooDeep" {
        info.too_deep = true;
    }
    if !info.err_kinds.contains(&k) {
        info.err_kinds.push(k);
    }
    Ok(())
}

fn check_stmt_span(api: &str, input: &str, st: &Statement) -> Result<(), OFail> {
    let (s, t) = (st.span.start.0 as usize, st.span.end.0 as usize);
    if s > t || t > input.len() {
        return Err(OFail::new(
            format!("span:stmt-outside:{api}"),
            format!("{api}: statement span {s}..{t} not inside the input (len {}) on input {}", input.len(), show(input)),
        ));
    }
    Ok(())
}

fn same_result<T: PartialEq>(a: &Result<T, ParseError>, b: &Result<T, ParseError>) -> bool {
    match (a, b) {
        (Ok(x), Ok(y)) => x == y,
        (Err(x), Err(y)) => err_key(x) == err_key(y),
        _ => false,
    }
}

pub fn check_tokens(input: &str, toks: &[Token], info: &mut Info) -> Result<(), OFail> {
    let len = input.len();
    let mut prev_end = 0usize;
    for (i, t) in toks.iter().enumerate() {
        let (s, e) = (t.span.start.0 as usize, t.span.end.0 as usize);
        if s > e {
            return Err(OFail::new("span:token-inverted", format!("token {i} {:?} span {s}..{e} on input {}", t.kind, show(input))));
        }
        if e > len {
            return Err(OFail::new(
                "span:token-past-end",
                format!("token {i} {:?} span {s}..{e} past input length {len} on input {}", t.kind, show(input)),
            ));
        }
        if !input.is_char_boundary(s) || !input.is_char_boundary(e) {
            return Err(OFail::new(
                "span:token-char-boundary",
                format!("token {i} {:?} span {s}..{e} splits a character on input {}", t.kind, show(input)),
            ));
        }
        if s < prev_end {
            return Err(OFail::new(
                "span:token-order",
                format!("token {i} {:?} span {s}..{e} starts before the previous token ended ({prev_end}) on input {}", t.kind, show(input)),
            ));
        }
        prev_end = e;
        if t.is_keyword() {
            info.keyword_tokens += 1;
        }
        if matches!(t.kind, neumann_parser::TokenKind::Error(_)) {
            info.error_tokens += 1;
        }
    }
    match toks.last() {
        Some(t) if t.is_eof() => {},
        _ => return Err(OFail::new("lexer:eof-token", format!("token stream does not end with Eof on input {}", show(input)))),
    }
    if toks.iter().filter(|t| t.is_eof()).count() != 1 {
        return Err(OFail::new("lexer:eof-token", format!("more than one Eof token on input {}", show(input))));
    }
    info.tokens = toks.len() - 1;
    Ok(())
}

fn stmt_kind_name(st: &Statement) -> String {
    // Debug of the kind would walk the whole tree; take the variant name cheaply
    match &st.kind {
        StatementKind::Empty => "Empty".into(),
        StatementKind::Select(_) => "Select".into(),
        StatementKind::Insert(_) => "Insert".into(),
        StatementKind::Update(_) => "Update".into(),
        StatementKind::Delete(_) => "Delete".into(),
        StatementKind::CreateTable(_) => "CreateTable".into(),
        StatementKind::Node(_) => "Node".into(),
        StatementKind::Edge(_) => "Edge".into(),
        StatementKind::Neighbors(_) => "Neighbors".into(),
        StatementKind::Path(_) => "Path".into(),
        StatementKind::Embed(_) => "Embed".into(),
        StatementKind::Similar(_) => "Similar".into(),
        StatementKind::Find(_) => "Find".into(),
        StatementKind::Entity(_) => "Entity".into(),
        _ => "Other".into(),
    }
}

/// Run the oracle for the entry points selected in `apis`.
pub fn check(input: &str, apis: u8) -> Result<Info, OFail> {
    let mut info = Info::default();

    if apis & LEX != 0 {
        let a = guarded("tokenize", input, || neumann_parser::tokenize(input))?;
        check_tokens(input, &a, &mut info)?;
        let b = guarded("tokenize", input, || neumann_parser::tokenize(input))?;
        if a != b {
            return Err(OFail::new("nondeterministic:tokenize", format!("tokenize gave two different streams on input {}", show(input))));
        }
    }

    let mut parse_res = None;
    if apis & PARSE != 0 {
        let a = guarded("parse", input, || neumann_parser::parse(input))?;
        match &a {
            Ok(st) => {
                check_stmt_span("parse", input, st)?;
                info.parse_ok = Some(true);
                info.parse_kind = Some(stmt_kind_name(st));
            },
            Err(e) => {
                check_err("parse", input, e, &mut info)?;
                info.parse_ok = Some(false);
            },
        }
        let b = guarded("parse", input, || neumann_parser::parse(input))?;
        if !same_result(&a, &b) {
            return Err(OFail::new("nondeterministic:parse", format!("parse gave two different results on input {}", show(input))));
        }
        parse_res = Some(a);
    }

    if apis & PARSE_ALL != 0 {
        let a = guarded("parse_all", input, || neumann_parser::parse_all(input))?;
        match &a {
            Ok(v) => {
                for st in v {
                    check_stmt_span("parse_all", input, st)?;
                }
                info.parse_all_stmts = Some(v.len());
            },
            Err(e) => check_err("parse_all", input, e, &mut info)?,
        }
        let b = guarded("parse_all", input, || neumann_parser::parse_all(input))?;
        if !same_result(&a, &b) {
            return Err(OFail::new("nondeterministic:parse_all", format!("parse_all gave two different results on input {}", show(input))));
        }
        if apis & DIFF != 0 {
            if let Some(p) = &parse_res {
                // `parse` = the first statement of the text
                let agree = match (p, &a) {
                    (Ok(st), Ok(v)) => match v.first() {
                        Some(first) => st == first,
                        None => matches!(st.kind, StatementKind::Empty),
                    },
                    (Err(e1), Err(e2)) => err_key(e1) == err_key(e2),
                    // a later statement may fail in parse_all while the first one parsed
                    (Ok(_), Err(_)) => true,
                    (Err(_), Ok(_)) => false,
                };
                if !agree {
                    return Err(OFail::new(
                        "differential:parse-vs-parse_all",
                        format!("parse and the first statement of parse_all disagree on input {}", show(input)),
                    ));
                }
            }
        }
    }

    if apis & EXPR != 0 {
        let a = guarded("parse_expr", input, || neumann_parser::parse_expr(input))?;
        match &a {
            Ok(e) => {
                let (s, t) = (e.span.start.0 as usize, e.span.end.0 as usize);
                if s > t || t > input.len() {
                    return Err(OFail::new(
                        "span:expr-outside:parse_expr",
                        format!("expression span {s}..{t} not inside the input (len {}) on input {}", input.len(), show(input)),
                    ));
                }
                info.expr_ok = Some(true);
                // parse_expr promises a whole-input expression ("Ensure we consumed all input"): the
                // span of the result covers every token of the input
                if let Ok(toks) = catch_unwind(AssertUnwindSafe(|| neumann_parser::tokenize(input))) {
                    let real: Vec<&Token> = toks.iter().filter(|t| !t.is_eof()).collect();
                    if let (Some(first), Some(last)) = (real.first(), real.last()) {
                        if s > first.span.start.0 as usize || t < last.span.end.0 as usize {
                            return Err(OFail::new(
                                "span:expr-does-not-cover-input",
                                format!(
                                    "parse_expr returned Ok with span {s}..{t} but the tokens of the input span {}..{} on input {}",
                                    first.span.start.0,
                                    last.span.end.0,
                                    show(input)
                                ),
                            ));
                        }
                    }
                }
            },
            Err(e) => {
                check_err("parse_expr", input, e, &mut info)?;
                info.expr_ok = Some(false);
            },
        }
        let b = guarded("parse_expr", input, || neumann_parser::parse_expr(input))?;
        if !same_result(&a, &b) {
            return Err(OFail::new("nondeterministic:parse_expr", format!("parse_expr gave two different results on input {}", show(input))));
        }
        if apis & DIFF != 0 {
            if let Ok(e1) = &a {
                // the statement parser has its own copy of the expression grammar: on an expression
                // the stand-alone parser accepts, `SELECT <expr>` must give the same tree
                let wrapped = format!("SELECT {input}");
                let r = guarded("parse", &wrapped, || neumann_parser::parse(&wrapped))?;
                if let Ok(st) = &r {
                    if let StatementKind::Select(sel) = &st.kind {
                        if sel.columns.len() == 1 && sel.columns[0].alias.is_none() && sel.from.is_none() {
                            let t1 = crate::tree::from_expr(e1);
                            let t2 = crate::tree::from_expr(&sel.columns[0].expr);
                            info.expr_diff_compared = true;
                            if t1 != t2 {
                                return Err(OFail::new(
                                    "differential:expr-parsers",
                                    format!(
                                        "parse_expr and parse(\"SELECT …\") group the expression differently: {} vs {} on input {}",
                                        t1.full(),
                                        t2.full(),
                                        show(input)
                                    ),
                                ));
                            }
                        }
                    }
                }
            }
        }
    }
    Ok(info)
}

/// One call of one entry point, error position checked, result dropped; no repetition and no tree
/// comparison (used by the nesting probes, where the harness itself must not recurse over a
/// 100 000-deep tree). Returns a one-word outcome for the evidence.
pub fn check_once(input: &str, api: u8) -> Result<String, OFail> {
    let mut info = Info::default();
    if api & LEX != 0 {
        let toks = guarded("tokenize", input, || neumann_parser::tokenize(input))?;
        check_tokens(input, &toks, &mut info)?;
        return Ok(format!("tokens:{}", if info.error_tokens > 0 { "with-error-token" } else { "clean" }));
    }
    if api & EXPR != 0 {
        return match guarded("parse_expr", input, || neumann_parser::parse_expr(input))? {
            Ok(_) => Ok("ok".into()),
            Err(e) => {
                check_err("parse_expr", input, &e, &mut info)?;
                Ok(format!("err:{}", kind_name(&e)))
            },
        };
    }
    if api & PARSE != 0 {
        return match guarded("parse", input, || neumann_parser::parse(input))? {
            Ok(_) => Ok("ok".into()),
            Err(e) => {
                check_err("parse", input, &e, &mut info)?;
                Ok(format!("err:{}", kind_name(&e)))
            },
        };
    }
    match guarded("parse_all", input, || neumann_parser::parse_all(input))? {
        Ok(_) => Ok("ok".into()),
        Err(e) => {
            check_err("parse_all", input, &e, &mut info)?;
            Ok(format!("err:{}", kind_name(&e)))
        },
    }
}
