//! C15 — Parsing is total, deterministic, precedence-correct; text ≡ API.
//!
//! Parts:
//!  * `soup`    token soups / mutated statements / splices / unicode through the totality oracle
//!  * `trees`   generated expression trees printed with minimal and full parentheses, round trip
//!  * `nest`    adversarial nesting in child processes (stack exhaustion observed, not suffered)
//!  * `stmts`   statement sequences executed as text on a QueryRouter and as engine calls on a twin
//!  * `corpus`  replay of the committed seed corpus of the fuzz targets through the same oracle
//!  * `fuzz`    (thorough) bounded libFuzzer campaigns of the four targets in /verif/fuzz_c15

mod fuzzpart;
mod nanorder;
mod nest;
mod soup;
mod stmts;
mod trees;

use nv_engine::{main_for, PropDef, PropPart};

fn main() {
    if let Err(e) = nv_c15::self_check() {
        eprintln!("nv C15: {e}");
        println!("INCONCLUSIVE property=C15: generator data out of date");
        std::process::exit(2);
    }
    let def = PropDef {
        id: "C15",
        level: "exploration",
        rule: "soup/corpus/fuzz: the input lexes to >= 1 keyword token (reaches the parser past the lexer); \
               trees: >= 3 distinct documented precedence levels among the operator nodes AND the minimal printing omits a \
               parenthesis the full printing has; stmts: the sequence contains >= 1 reading statement (SELECT / NODE GET / NODE LIST / EDGE GET / EDGE LIST / NEIGHBORS / PATH / SIMILAR / SHOW TABLES) that returned >= 1 row; \
               nest: the probe text contains a keyword",
        assumptions: vec![
            "documented precedence = table at neumann_parser/src/expr.rs:7-18 and docs/book/src/architecture/neumann-parser.md (all binary operators left-associative, prefix above binary, postfix above prefix)",
            "where the documentation is silent the minimal printer keeps the parenthesis: BETWEEN bounds / LIKE pattern are printed bare only when prefix-level or tighter; a BETWEEN / LIKE that is the left operand of a postfix operator is parenthesised",
            "stack probes use the two default stacks a caller has: 8 MiB main thread and 2 MiB std::thread / tokio worker; release profile of the harness (opt-level 2)",
            "text == API is decided on QueryRouter::execute_parsed (the path the shell and server use); QueryRouter::execute (legacy splitter) is compared only on read-only statements it accepts",
            "the harness profile has overflow-checks and debug-assertions on: an arithmetic overflow inside the parser is observed as a panic",
        ],
        parts: vec![
            PropPart::new("soup", 600_000, 4_000_000, soup::strategy, soup::check).boxed(),
            PropPart::new("trees", 150_000, 2_000_000, trees::strategy, trees::check).boxed(),
            Box::new(nest::part()),
            PropPart::new("stmts", 2_000, 30_000, stmts::strategy, stmts::check).shrink_iters(800).boxed(),
            PropPart::new("nan_order", 3_000, 60_000, nanorder::strategy, nanorder::check).shrink_iters(200).boxed(),
            Box::new(fuzzpart::corpus_part()),
            Box::new(fuzzpart::fuzz_part()),
        ],
        children: vec![
            ("nest-probe", Box::new(|args: &[String]| nest::child_main(args))),
            ("fuzz-repro", Box::new(|args: &[String]| fuzzpart::repro_child(args))),
            ("gen-corpus", Box::new(|args: &[String]| fuzzpart::gen_corpus_child(args))),
            ("stmts-bench", Box::new(|args: &[String]| stmts::bench_child(args))),
        ],
    };
    main_for(def)
}
