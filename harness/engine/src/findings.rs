//! known_findings.json: genuine defects that were recorded instead of repaired, keyed by a
//! signature made of categorical features of the failure. Never written at run time.

use serde::Deserialize;
use std::collections::BTreeMap;

#[derive(Deserialize, Debug, Clone)]
pub struct KnownEntry {
    pub property: String,
    pub sig: String,
    pub what: String,
}

#[derive(Deserialize, Debug, Clone)]
pub struct FixedEntry {
    pub property: String,
    pub commit: String,
    pub what: String,
    #[serde(default)]
    pub sig: String,
}

#[derive(Deserialize, Debug, Default)]
struct FileFmt {
    #[serde(default)]
    known: Vec<KnownEntry>,
    #[serde(default)]
    fixed: Vec<FixedEntry>,
}

/// Known findings of one property: signature -> description.
#[derive(Debug, Default, Clone)]
pub struct Findings {
    pub known: BTreeMap<String, String>,
}

impl Findings {
    pub fn load(property: &str) -> Self {
        let path = crate::root().join("known_findings.json");
        let Ok(text) = std::fs::read_to_string(&path) else {
            return Self::default();
        };
        let parsed: FileFmt = match serde_json::from_str(&text) {
            Ok(p) => p,
            Err(e) => {
                eprintln!("nv: cannot parse {}: {e}", path.display());
                std::process::exit(2);
            },
        };
        let _ = &parsed.fixed; // fixed entries suppress nothing
        let mut known = BTreeMap::new();
        for k in parsed.known {
            if k.property == property {
                known.insert(k.sig, k.what);
            }
        }
        Self { known }
    }

    pub fn is_known(&self, sig: &str) -> bool {
        self.known.contains_key(sig)
    }
}
