//! Per-process scratch directory on tmpfs (/dev/shm/nv-<pid>), removed on exit.

use std::path::PathBuf;
use std::sync::atomic::{AtomicU64, Ordering};

static COUNTER: AtomicU64 = AtomicU64::new(0);

pub fn base() -> PathBuf {
    let root = if std::path::Path::new("/dev/shm").is_dir() { "/dev/shm" } else { "/var/tmp" };
    let p = PathBuf::from(format!("{root}/nv-{}", std::process::id()));
    let _ = std::fs::create_dir_all(&p);
    p
}

/// A fresh, empty directory unique within this process. Removed when the guard drops.
pub struct Dir(pub PathBuf);

impl Dir {
    pub fn new(tag: &str) -> Self {
        let n = COUNTER.fetch_add(1, Ordering::Relaxed);
        let p = base().join(format!("{tag}-{n}"));
        let _ = std::fs::remove_dir_all(&p);
        std::fs::create_dir_all(&p).expect("create scratch dir");
        Dir(p)
    }
    pub fn path(&self) -> &std::path::Path {
        &self.0
    }
    pub fn join(&self, f: &str) -> PathBuf {
        self.0.join(f)
    }
}

impl Drop for Dir {
    fn drop(&mut self) {
        let _ = std::fs::remove_dir_all(&self.0);
    }
}

pub fn cleanup() {
    let root = if std::path::Path::new("/dev/shm").is_dir() { "/dev/shm" } else { "/var/tmp" };
    let p = PathBuf::from(format!("{root}/nv-{}", std::process::id()));
    let _ = std::fs::remove_dir_all(p);
}
