//! nv_engine — common machinery for the Neumann property checks.
//!
//! * `runner`   proptest-driven parts, sharding, shrinking, replay files, evidence, exit codes
//! * `findings` known_findings.json (signatures of recorded genuine defects)
//! * `sched`    deterministic thread scheduler driven by `tensor_store::verif_hooks::yield_point`
//! * `crashkit` byte-prefix truncation helpers, child-process crash injection
//! * `walframe` independent reader for `[len u32][crc32 u32][payload]` logs
//! * `scratch`  per-process scratch directory under /dev/shm

pub mod crashkit;
pub mod findings;
pub mod runner;
pub mod sched;
pub mod scratch;
pub mod walframe;

pub use findings::Findings;
pub use runner::{
    main_for, CaseCtx, CustomPart, Fail, Part, PartStats, PropDef, PropPart, RunCfg, Tier,
    Violation,
};

/// Root of the verification tree (the directory holding MANIFEST.json).
pub fn root() -> std::path::PathBuf {
    if let Ok(r) = std::env::var("NV_ROOT") {
        return r.into();
    }
    let p = std::path::Path::new(env!("CARGO_MANIFEST_DIR"));
    p.parent().and_then(|p| p.parent()).map(|p| p.to_path_buf()).unwrap_or_else(|| "/verif".into())
}

/// Stable 64-bit FNV-1a hash (no dependence on std's randomised hasher).
pub fn fnv64(bytes: &[u8]) -> u64 {
    let mut h: u64 = 0xcbf29ce484222325;
    for b in bytes {
        h ^= u64::from(*b);
        h = h.wrapping_mul(0x100000001b3);
    }
    h
}

/// Monotone index mapping used for shrink-friendly selection: maps `i` in 0..=65535 onto 0..len.
pub fn pick(i: u16, len: usize) -> usize {
    debug_assert!(len > 0);
    ((i as usize) * len) >> 16
}

/// splitmix64 — used only to derive per-shard seeds from VERIF_SEED.
pub fn mix(mut x: u64) -> u64 {
    x = x.wrapping_add(0x9e3779b97f4a7c15);
    let mut z = x;
    z = (z ^ (z >> 30)).wrapping_mul(0xbf58476d1ce4e5b9);
    z = (z ^ (z >> 27)).wrapping_mul(0x94d049bb133111eb);
    z ^ (z >> 31)
}
