//! Deterministic thread scheduler.
//!
//! A case = per-thread closures + a schedule `Vec<u16>`. Worker OS threads start parked; exactly
//! one holds the turn. At every `yield_point(site)` compiled into the product (cfg neumann_verif)
//! and at every explicit `op_boundary()`, the running worker hands the turn back and the
//! controller picks the next runnable worker from the next schedule element (monotone mapping).
//! Between yield points execution is sequential, so a run is a function of (scripts, schedule).
//!
//! If the worker holding the turn does not report back within a grace period it is marked
//! *blocked* (it waits on a product lock held by a parked worker) and another parked worker is
//! granted, so the scheduler stays usable when the product puts a lock around a hooked window.
//! A case that cannot make progress is reported as `deadlocked` (inconclusive, never a violation).

use std::cell::RefCell;
use std::sync::{Arc, Condvar, Mutex};
use std::time::{Duration, Instant};

#[derive(Clone, Copy, PartialEq, Eq, Debug)]
enum Status {
    Parked,
    Running,
    Blocked,
    Done,
}

struct St {
    /// the worker the controller is currently waiting for (None = pick the next one)
    turn: Option<usize>,
    /// per-worker grant: set by the controller, consumed by the worker. A grant survives the
    /// worker being declared blocked, so a worker that is merely slow to wake still runs.
    granted: Vec<bool>,
    status: Vec<Status>,
    trace: Vec<(usize, &'static str)>,
    blocked_events: usize,
    panics: Vec<(usize, String)>,
}

struct Shared {
    m: Mutex<St>,
    cv: Condvar,
    sites: Vec<&'static str>,
}

thread_local! {
    static WORKER: RefCell<Option<(Arc<Shared>, usize)>> = const { RefCell::new(None) };
}

fn on_yield(site: &'static str) {
    let w = WORKER.with(|w| w.borrow().clone());
    let Some((sh, i)) = w else { return };
    if site != "op" && !sh.sites.is_empty() && !sh.sites.contains(&site) {
        return;
    }
    let mut st = sh.m.lock().unwrap_or_else(|e| e.into_inner());
    st.trace.push((i, site));
    st.status[i] = Status::Parked;
    if st.turn == Some(i) {
        st.turn = None;
    }
    sh.cv.notify_all();
    while !st.granted[i] {
        st = sh.cv.wait(st).unwrap_or_else(|e| e.into_inner());
    }
    st.granted[i] = false;
    st.status[i] = Status::Running;
}

/// Register the yield callback with the product hooks. Idempotent.
pub fn install() {
    tensor_store::verif_hooks::set_yield_callback(Some(on_yield));
}

/// Explicit scheduling point between two operations of a script.
pub fn op_boundary() {
    on_yield("op");
}

#[derive(Debug, Default, Clone)]
pub struct Report {
    /// (thread, site) in the order the yields happened
    pub trace: Vec<(usize, &'static str)>,
    /// how often a granted worker had to be declared blocked (timing-dependent fallback)
    pub blocked_events: usize,
    /// no progress possible: the case is inconclusive
    pub deadlocked: bool,
    pub panics: Vec<(usize, String)>,
}

impl Report {
    /// Number of times a worker reached `site` while another worker was parked at the same site
    /// (both inside the hooked window).
    pub fn overlaps(&self, site: &str) -> usize {
        let mut at: std::collections::HashMap<usize, &'static str> = std::collections::HashMap::new();
        let mut n = 0;
        for (t, s) in &self.trace {
            if *s == site && at.iter().any(|(ot, os)| ot != t && *os == site) {
                n += 1;
            }
            at.insert(*t, s);
        }
        n
    }
}

/// Run the scripts under the schedule. `sites`: hook sites that act as yield points in this case
/// (empty = all).
pub fn run<'a>(
    scripts: Vec<Box<dyn FnOnce() + Send + 'a>>,
    schedule: &[u16],
    sites: &[&'static str],
    grace: Duration,
) -> Report {
    let n = scripts.len();
    let sh = Arc::new(Shared {
        m: Mutex::new(St {
            turn: None,
            granted: vec![false; n],
            status: vec![Status::Parked; n],
            trace: Vec::new(),
            blocked_events: 0,
            panics: Vec::new(),
        }),
        cv: Condvar::new(),
        sites: sites.to_vec(),
    });
    let mut deadlocked = false;
    std::thread::scope(|scope| {
        for (i, script) in scripts.into_iter().enumerate() {
            let sh = sh.clone();
            std::thread::Builder::new()
                .name(format!("nv-w{i}"))
                .stack_size(16 << 20)
                .spawn_scoped(scope, move || {
                    WORKER.with(|w| *w.borrow_mut() = Some((sh.clone(), i)));
                    {
                        let mut st = sh.m.lock().unwrap_or_else(|e| e.into_inner());
                        while !st.granted[i] {
                            st = sh.cv.wait(st).unwrap_or_else(|e| e.into_inner());
                        }
                        st.granted[i] = false;
                        st.status[i] = Status::Running;
                    }
                    let r = std::panic::catch_unwind(std::panic::AssertUnwindSafe(script));
                    WORKER.with(|w| *w.borrow_mut() = None);
                    let mut st = sh.m.lock().unwrap_or_else(|e| e.into_inner());
                    if let Err(p) = r {
                        let m = crate::runner::panic_message(&p);
                        st.panics.push((i, m));
                    }
                    st.status[i] = Status::Done;
                    if st.turn == Some(i) {
                        st.turn = None;
                    }
                    sh.cv.notify_all();
                })
                .expect("spawn worker");
        }
        // controller
        let mut k = 0usize;
        let mut st = sh.m.lock().unwrap_or_else(|e| e.into_inner());
        loop {
            // wait for the turn to come back
            let deadline = Instant::now() + grace;
            while st.turn.is_some() {
                let now = Instant::now();
                if now >= deadline {
                    break;
                }
                let (g, _) = sh.cv.wait_timeout(st, deadline - now).unwrap_or_else(|e| e.into_inner());
                st = g;
            }
            if let Some(t) = st.turn {
                // granted worker did not come back: it is blocked on a product lock
                st.status[t] = Status::Blocked;
                st.blocked_events += 1;
                st.turn = None;
            }
            let runnable: Vec<usize> = (0..n).filter(|i| st.status[*i] == Status::Parked).collect();
            if runnable.is_empty() {
                if st.status.iter().all(|s| *s == Status::Done) {
                    break;
                }
                // only blocked/running workers remain: wait for one of them to park or finish
                let (g, to) = sh.cv.wait_timeout(st, Duration::from_secs(20)).unwrap_or_else(|e| e.into_inner());
                st = g;
                if to.timed_out()
                    && !st.status.iter().any(|s| *s == Status::Parked)
                    && !st.status.iter().all(|s| *s == Status::Done)
                {
                    eprintln!(
                        "nv sched: no progress for 20 s: status={:?} turn={:?} blocked_events={} last trace={:?}",
                        st.status,
                        st.turn,
                        st.blocked_events,
                        &st.trace[st.trace.len().saturating_sub(8)..]
                    );
                    deadlocked = true;
                    break;
                }
                continue;
            }
            let idx = if k < schedule.len() {
                let j = crate::pick(schedule[k], runnable.len());
                k += 1;
                runnable[j]
            } else {
                runnable[0]
            };
            st.turn = Some(idx);
            st.granted[idx] = true;
            st.status[idx] = Status::Running;
            sh.cv.notify_all();
        }
        if deadlocked {
            // cannot join stuck threads; leave the process (inconclusive)
            println!("INCONCLUSIVE: scheduler deadlock (workers blocked for 20 s)");
            crate::scratch::cleanup();
            std::process::exit(2);
        }
        drop(st);
    });
    let st = sh.m.lock().unwrap_or_else(|e| e.into_inner());
    Report {
        trace: st.trace.clone(),
        blocked_events: st.blocked_events,
        deadlocked,
        panics: st.panics.clone(),
    }
}
