//! Case runner: proptest strategies driven from a binary, sharded over threads, with
//! known-finding tolerance, shrinking, replay files, evidence and exit codes.

use crate::findings::Findings;
use proptest::strategy::Strategy;
use proptest::test_runner::{Config, RngAlgorithm, TestCaseError, TestError, TestRng, TestRunner};
use serde::{de::DeserializeOwned, Serialize};
use serde_json::{json, Value};
use std::collections::{BTreeMap, HashSet};
use std::panic::{catch_unwind, AssertUnwindSafe};
use std::sync::atomic::{AtomicBool, Ordering};
use std::sync::Mutex;
use std::time::Instant;

#[derive(Clone, Copy, PartialEq, Eq, Debug)]
pub enum Tier {
    Quick,
    Thorough,
}

impl Tier {
    pub fn name(self) -> &'static str {
        match self {
            Tier::Quick => "quick",
            Tier::Thorough => "thorough",
        }
    }
    /// Choose a value by tier.
    pub fn pick<T>(self, quick: T, thorough: T) -> T {
        match self {
            Tier::Quick => quick,
            Tier::Thorough => thorough,
        }
    }
}

#[derive(Clone, Debug)]
pub struct RunCfg {
    pub id: &'static str,
    pub tier: Tier,
    pub seed: u64,
    pub jobs: usize,
    /// case-count multiplier in percent (NV_SCALE), for experiments
    pub scale_pct: u64,
}

impl RunCfg {
    pub fn cases(&self, quick: u32, thorough: u32) -> u32 {
        let c = u64::from(self.tier.pick(quick, thorough)) * self.scale_pct / 100;
        c.max(1) as u32
    }
}

/// A failed expectation. `sig` is a categorical signature (used to match known findings),
/// `msg` the human-readable detail.
#[derive(Clone, Debug)]
pub struct Fail {
    pub sig: String,
    pub msg: String,
}

impl Fail {
    pub fn new(sig: impl Into<String>, msg: impl Into<String>) -> Self {
        Self { sig: sig.into(), msg: msg.into() }
    }
}

pub struct Violation {
    pub part: String,
    pub sig: String,
    pub msg: String,
    pub replay: String,
}

/// Per-case context handed to the interpreter of a property.
pub struct CaseCtx<'a> {
    findings: &'a Findings,
    /// strict = replay mode: known findings are reported as failures too
    pub strict: bool,
    pub nontrivial: bool,
    labels: Vec<String>,
    excluded: Vec<String>,
    pub note: Option<Value>,
}

impl<'a> CaseCtx<'a> {
    pub fn new(findings: &'a Findings, strict: bool) -> Self {
        Self { findings, strict, nontrivial: false, labels: Vec::new(), excluded: Vec::new(), note: None }
    }
    pub fn label(&mut self, l: impl Into<String>) {
        if self.labels.len() < 64 {
            let l = l.into();
            if !self.labels.contains(&l) {
                self.labels.push(l);
            }
        }
    }
    pub fn set_nontrivial(&mut self) {
        self.nontrivial = true;
    }
    /// Report a failed expectation. Returns `Ok(())` when the signature is a recorded known
    /// finding (the case may continue or stop, caller's choice — see `known_hit`), `Err` otherwise.
    pub fn fail(&mut self, sig: impl Into<String>, msg: impl Into<String>) -> Result<(), Fail> {
        let sig = sig.into();
        if !self.strict && self.findings.is_known(&sig) {
            if !self.excluded.contains(&sig) {
                self.excluded.push(sig);
            }
            Ok(())
        } else {
            Err(Fail { sig, msg: msg.into() })
        }
    }
    pub fn is_known(&self, sig: &str) -> bool {
        !self.strict && self.findings.is_known(sig)
    }
    /// True once a known finding was hit in this case (model and SUT may have diverged).
    pub fn known_hit(&self) -> bool {
        !self.excluded.is_empty()
    }
}

/// Aggregated statistics of one part.
#[derive(Default)]
pub struct PartStats {
    pub evaluations: u64,
    pub nontrivial: HashSet<u64>,
    pub labels: BTreeMap<String, u64>,
    pub excluded_known: BTreeMap<String, u64>,
    pub samples: Vec<Value>,
    pub extra: BTreeMap<String, Value>,
    pub exhaustive: bool,
}

impl PartStats {
    pub fn label(&mut self, l: &str) {
        *self.labels.entry(l.to_string()).or_insert(0) += 1;
    }
    pub fn label_n(&mut self, l: &str, n: u64) {
        *self.labels.entry(l.to_string()).or_insert(0) += n;
    }
    pub fn sample(&mut self, v: Value) {
        if self.samples.len() < 3 {
            self.samples.push(clip(v));
        }
    }
    pub fn excluded(&mut self, sig: &str) {
        *self.excluded_known.entry(sig.to_string()).or_insert(0) += 1;
    }
    pub fn merge(&mut self, o: PartStats) {
        self.evaluations += o.evaluations;
        self.nontrivial.extend(o.nontrivial);
        for (k, v) in o.labels {
            *self.labels.entry(k).or_insert(0) += v;
        }
        for (k, v) in o.excluded_known {
            *self.excluded_known.entry(k).or_insert(0) += v;
        }
        for s in o.samples {
            if self.samples.len() < 3 {
                self.samples.push(s);
            }
        }
        self.extra.extend(o.extra);
    }
}

fn clip(v: Value) -> Value {
    let s = v.to_string();
    if s.len() <= 6000 {
        v
    } else {
        let mut end = 6000;
        while !s.is_char_boundary(end) {
            end -= 1;
        }
        json!({ "truncated_json": &s[..end], "full_len": s.len() })
    }
}

pub trait Part: Sync {
    fn name(&self) -> &str;
    fn run(&self, cfg: &RunCfg, findings: &Findings, stats: &mut PartStats) -> Option<Violation>;
    /// Re-run one saved case through the plain interpreter (strict: known findings fail too).
    fn replay(&self, case: &Value, findings: &Findings, strict: bool) -> Result<(), Fail>;
}

/// A part driven by a proptest strategy.
pub struct PropPart<T, S, MkS, F>
where
    S: Strategy<Value = T>,
    MkS: Fn(Tier) -> S + Sync,
    F: Fn(&T, &mut CaseCtx) -> Result<(), Fail> + Sync,
{
    pub name: &'static str,
    pub quick: u32,
    pub thorough: u32,
    /// maximum number of worker threads for this part (1 for parts using process-global state)
    pub max_jobs: usize,
    pub max_shrink_iters: u32,
    pub strategy: MkS,
    pub check: F,
    pub _t: std::marker::PhantomData<fn() -> (T, S)>,
}

impl<T, S, MkS, F> PropPart<T, S, MkS, F>
where
    T: std::fmt::Debug + Serialize + DeserializeOwned + Clone + Send,
    S: Strategy<Value = T>,
    MkS: Fn(Tier) -> S + Sync,
    F: Fn(&T, &mut CaseCtx) -> Result<(), Fail> + Sync,
{
    pub fn new(name: &'static str, quick: u32, thorough: u32, strategy: MkS, check: F) -> Self {
        Self {
            name,
            quick,
            thorough,
            max_jobs: usize::MAX,
            max_shrink_iters: 1500,
            strategy,
            check,
            _t: std::marker::PhantomData,
        }
    }
    pub fn jobs(mut self, n: usize) -> Self {
        self.max_jobs = n;
        self
    }
    pub fn shrink_iters(mut self, n: u32) -> Self {
        self.max_shrink_iters = n;
        self
    }
    pub fn boxed(self) -> Box<dyn Part>
    where
        Self: 'static,
    {
        Box::new(self)
    }

    fn eval(&self, v: &T, findings: &Findings, strict: bool) -> (Result<(), Fail>, CaseOut) {
        let mut ctx = CaseCtx::new(findings, strict);
        let r = catch_unwind(AssertUnwindSafe(|| (self.check)(v, &mut ctx)));
        let r = match r {
            Ok(r) => r,
            Err(p) => {
                let m = panic_message(&p);
                // a panic is a failure like any other; signature carries the first line only
                let sig = format!("panic:{}", first_words(&m));
                ctx.fail(sig, format!("panic: {m}"))
            },
        };
        (
            r,
            CaseOut {
                nontrivial: ctx.nontrivial,
                labels: ctx.labels,
                excluded: ctx.excluded,
                note: ctx.note,
            },
        )
    }
}

struct CaseOut {
    nontrivial: bool,
    labels: Vec<String>,
    excluded: Vec<String>,
    note: Option<Value>,
}

pub fn panic_message(p: &Box<dyn std::any::Any + Send>) -> String {
    if let Some(s) = p.downcast_ref::<&str>() {
        (*s).to_string()
    } else if let Some(s) = p.downcast_ref::<String>() {
        s.clone()
    } else {
        "non-string panic".to_string()
    }
}

fn first_words(m: &str) -> String {
    let line = m.lines().next().unwrap_or("");
    let mut out = String::new();
    for c in line.chars() {
        if out.len() >= 48 {
            break;
        }
        if c.is_ascii_digit() {
            if !out.ends_with('#') {
                out.push('#');
            }
        } else if c.is_ascii_alphanumeric() || c == ' ' || c == '_' || c == ':' {
            out.push(c);
        }
    }
    out
}

impl<T, S, MkS, F> Part for PropPart<T, S, MkS, F>
where
    T: std::fmt::Debug + Serialize + DeserializeOwned + Clone + Send,
    S: Strategy<Value = T>,
    MkS: Fn(Tier) -> S + Sync,
    F: Fn(&T, &mut CaseCtx) -> Result<(), Fail> + Sync,
{
    fn name(&self) -> &str {
        self.name
    }

    fn run(&self, cfg: &RunCfg, findings: &Findings, stats: &mut PartStats) -> Option<Violation> {
        let total = cfg.cases(self.quick, self.thorough);
        let jobs = cfg.jobs.min(self.max_jobs).min(total as usize).max(1);
        let per = total.div_ceil(jobs as u32);
        let abort = AtomicBool::new(false);
        let shared: Mutex<PartStats> = Mutex::new(PartStats::default());
        let first_violation: Mutex<Option<(T, Fail)>> = Mutex::new(None);

        std::thread::scope(|scope| {
            for j in 0..jobs {
                let abort = &abort;
                let shared = &shared;
                let first_violation = &first_violation;
                let seed = crate::mix(cfg.seed ^ crate::fnv64(self.name.as_bytes()) ^ ((j as u64) << 48));
                std::thread::Builder::new()
                    .name(format!("nv-{}-{j}", self.name))
                    .stack_size(64 << 20)
                    .spawn_scoped(scope, move || {
                        let mut config = Config::default();
                        config.cases = per;
                        config.failure_persistence = None;
                        config.max_shrink_iters = self.max_shrink_iters;
                        config.max_shrink_time = 0;
                        config.verbose = 0;
                        config.max_global_rejects = 1_000_000;
                        config.source_file = None;
                        let mut sb = [0u8; 32];
                        sb[..8].copy_from_slice(&seed.to_le_bytes());
                        sb[8..16].copy_from_slice(&crate::mix(seed).to_le_bytes());
                        let rng = TestRng::from_seed(RngAlgorithm::ChaCha, &sb);
                        let mut runner = TestRunner::new_with_rng(config, rng);
                        let strat = (self.strategy)(cfg.tier);
                        let mut local = PartStats::default();
                        let local_cell = std::cell::RefCell::new(&mut local);
                        let shrinking: std::cell::RefCell<Option<String>> = std::cell::RefCell::new(None);
                        // the case that failed first and what it said (kept if shrinking ends on a
                        // candidate that does not fail again: timing-dependent failures)
                        let original: std::cell::RefCell<Option<(T, Fail)>> = std::cell::RefCell::new(None);
                        let res = runner.run(&strat, |v| {
                            if let Some(orig_sig) = shrinking.borrow().as_ref() {
                                // shrinking: a candidate fails only with the original signature
                                let (r, _) = self.eval(&v, findings, false);
                                return match r {
                                    Err(f) if &f.sig == orig_sig => Err(TestCaseError::fail(f.sig)),
                                    _ => Ok(()),
                                };
                            }
                            if abort.load(Ordering::Relaxed) {
                                return Ok(());
                            }
                            let (r, out) = self.eval(&v, findings, false);
                            let mut st = local_cell.borrow_mut();
                            st.evaluations += 1;
                            for l in &out.labels {
                                st.label(l);
                            }
                            for e in &out.excluded {
                                st.excluded(e);
                            }
                            if out.nontrivial {
                                let js = serde_json::to_string(&v).unwrap_or_default();
                                let fresh = st.nontrivial.insert(crate::fnv64(js.as_bytes()));
                                if fresh && st.samples.len() < 3 && j == 0 {
                                    let mut s = json!({ "case": serde_json::to_value(&v).unwrap_or(Value::Null) });
                                    if let Some(n) = out.note {
                                        s["note"] = n;
                                    }
                                    st.sample(s);
                                }
                            }
                            match r {
                                Ok(()) => Ok(()),
                                Err(f) => {
                                    *shrinking.borrow_mut() = Some(f.sig.clone());
                                    *original.borrow_mut() = Some((v.clone(), Fail::new(f.sig.clone(), f.msg.clone())));
                                    abort.store(true, Ordering::Relaxed);
                                    Err(TestCaseError::fail(f.sig))
                                },
                            }
                        });
                        if let Err(TestError::Fail(_, minimal)) = res {
                            // final evaluation of the shrunk case for the message
                            let (r, _) = self.eval(&minimal, findings, false);
                            let (case, f) = match (r.err(), original.borrow_mut().take()) {
                                (Some(f), _) => (minimal, f),
                                // the shrunk case does not fail again: report the case that did, with what it said
                                (None, Some((v0, f0))) => (v0, Fail::new(f0.sig, format!("{} [not reproduced when re-run while shrinking: timing-dependent]", f0.msg))),
                                (None, None) => (
                                    minimal,
                                    Fail::new(shrinking.borrow().clone().unwrap_or_default(), "shrunk case no longer fails (flaky); original failure signature kept"),
                                ),
                            };
                            let mut fv = first_violation.lock().unwrap();
                            if fv.is_none() {
                                *fv = Some((case, f));
                            }
                        } else if let Err(TestError::Abort(r)) = res {
                            eprintln!("nv: part {} shard {j}: generator aborted: {r}", self.name);
                        }
                        drop(local_cell);
                        shared.lock().unwrap().merge(local);
                    })
                    .expect("spawn shard");
            }
        });
        stats.merge(shared.into_inner().unwrap());
        let fv = first_violation.into_inner().unwrap();
        fv.map(|(case, f)| {
            let path = write_replay(cfg, self.name, &f, &serde_json::to_value(&case).unwrap_or(Value::Null));
            Violation { part: self.name.to_string(), sig: f.sig, msg: f.msg, replay: path }
        })
    }

    fn replay(&self, case: &Value, findings: &Findings, strict: bool) -> Result<(), Fail> {
        let v: T = serde_json::from_value(case.clone())
            .map_err(|e| Fail::new("replay-format", format!("cannot decode case: {e}")))?;
        self.eval(&v, findings, strict).0
    }
}

/// Re-run the saved cases of this property (files under replays/<ID>/). A file that no longer
/// decodes, names a part that is gone, or records a real-thread history that cannot be re-executed
/// is skipped and counted; a case that fails with a signature that is not a listed known finding
/// is a violation whose replay file is the saved file itself.
fn replay_saved(def: &PropDef, findings: &Findings) -> (Value, Option<Violation>) {
    let dir = crate::root().join("replays").join(def.id);
    let mut files: Vec<std::path::PathBuf> = std::fs::read_dir(&dir)
        .map(|rd| rd.filter_map(|e| e.ok().map(|e| e.path())).filter(|p| p.extension().map_or(false, |x| x == "json")).collect())
        .unwrap_or_default();
    files.sort();
    let (mut ran, mut passed, mut skipped) = (0u64, 0u64, 0u64);
    let mut first: Option<Violation> = None;
    for f in &files {
        let Some(doc) = std::fs::read_to_string(f).ok().and_then(|t| serde_json::from_str::<Value>(&t).ok()) else {
            skipped += 1;
            continue;
        };
        let part_name = doc["part"].as_str().unwrap_or("");
        let Some(p) = def.parts.iter().find(|p| p.name() == part_name) else {
            skipped += 1;
            continue;
        };
        if part_name == "stress" {
            skipped += 1;
            continue;
        }
        let res = std::panic::catch_unwind(std::panic::AssertUnwindSafe(|| p.replay(&doc["case"], findings, false)));
        match res {
            Ok(Ok(())) => {
                ran += 1;
                passed += 1;
            },
            Ok(Err(fl)) if fl.sig == "replay-format" || fl.sig == "harness" || fl.sig.starts_with("stress") => skipped += 1,
            Err(_) => skipped += 1,
            Ok(Err(fl)) => {
                ran += 1;
                if first.is_none() {
                    first = Some(Violation { part: "saved".to_string(), sig: fl.sig, msg: fl.msg, replay: f.display().to_string() });
                }
            },
        }
    }
    let pj = json!({
        "evaluations": ran,
        "distinct_nontrivial": 0,
        "files": files.len(),
        "passed": passed,
        "skipped_not_reexecutable": skipped,
        "what": "saved cases under replays/<ID>/ re-run through the plain interpreter before the search (known findings tolerated)",
    });
    (pj, first)
}

pub fn write_replay(cfg: &RunCfg, part: &str, f: &Fail, case: &Value) -> String {
    let dir = crate::root().join("replays").join(cfg.id);
    let _ = std::fs::create_dir_all(&dir);
    let sig_clean: String =
        f.sig.chars().map(|c| if c.is_ascii_alphanumeric() || c == '-' { c } else { '_' }).take(60).collect();
    let path = dir.join(format!("{part}-{sig_clean}-{}.json", cfg.seed));
    let doc = json!({
        "property": cfg.id,
        "part": part,
        "seed": cfg.seed,
        "tier": cfg.tier.name(),
        "sig": f.sig,
        "msg": f.msg,
        "case": case,
    });
    let _ = std::fs::write(&path, serde_json::to_string_pretty(&doc).unwrap_or_default());
    path.display().to_string()
}

/// A hand-written part (exhaustive enumeration, crash children, stress, corpus replay…).
pub struct CustomPart {
    pub name: &'static str,
    #[allow(clippy::type_complexity)]
    pub run: Box<dyn Fn(&RunCfg, &Findings, &mut PartStats) -> Option<Violation> + Sync + Send>,
    #[allow(clippy::type_complexity)]
    pub replay: Box<dyn Fn(&Value, &Findings, bool) -> Result<(), Fail> + Sync + Send>,
}

impl Part for CustomPart {
    fn name(&self) -> &str {
        self.name
    }
    fn run(&self, cfg: &RunCfg, findings: &Findings, stats: &mut PartStats) -> Option<Violation> {
        (self.run)(cfg, findings, stats)
    }
    fn replay(&self, case: &Value, findings: &Findings, strict: bool) -> Result<(), Fail> {
        (self.replay)(case, findings, strict)
    }
}

pub struct PropDef {
    pub id: &'static str,
    /// "exploration" | "fault_enumeration"
    pub level: &'static str,
    pub rule: &'static str,
    pub assumptions: Vec<&'static str>,
    pub parts: Vec<Box<dyn Part>>,
    /// child-process entry points: `<exe> child <name> <args…>`
    #[allow(clippy::type_complexity)]
    pub children: Vec<(&'static str, Box<dyn Fn(&[String]) -> i32>)>,
}

fn usage(id: &str) -> ! {
    eprintln!("usage: nv_{id} check [--tier quick|thorough] [--seed N] [--jobs N] [--only PART] | replay <file> [--lenient] | child <name> …");
    std::process::exit(2);
}

pub fn install_quiet_panic_hook() {
    // Panics inside cases are caught and turned into failures with the message; the default
    // hook would flood stderr while proptest shrinks. NV_PANIC_TRACE=1 restores it.
    if std::env::var("NV_PANIC_TRACE").is_err() {
        std::panic::set_hook(Box::new(|_| {}));
    }
}

pub fn main_for(def: PropDef) -> ! {
    let args: Vec<String> = std::env::args().skip(1).collect();
    let id_lc = def.id.to_lowercase();
    if args.is_empty() {
        usage(&id_lc);
    }
    match args[0].as_str() {
        "child" => {
            if args.len() < 2 {
                usage(&id_lc);
            }
            for (name, f) in &def.children {
                if *name == args[1] {
                    let code = f(&args[2..]);
                    std::process::exit(code);
                }
            }
            eprintln!("nv: unknown child {}", args[1]);
            std::process::exit(2);
        },
        "replay" => {
            if args.len() < 2 {
                usage(&id_lc);
            }
            let strict = !args.iter().any(|a| a == "--lenient");
            let text = std::fs::read_to_string(&args[1]).unwrap_or_else(|e| {
                eprintln!("nv: cannot read {}: {e}", args[1]);
                std::process::exit(2)
            });
            let doc: Value = serde_json::from_str(&text).unwrap_or_else(|e| {
                eprintln!("nv: bad replay file: {e}");
                std::process::exit(2)
            });
            let part_name = doc["part"].as_str().unwrap_or("");
            let findings = Findings::load(def.id);
            install_quiet_panic_hook();
            crate::sched::install();
            for p in &def.parts {
                if p.name() == part_name {
                    match p.replay(&doc["case"], &findings, strict) {
                        Ok(()) => {
                            println!("REPLAY-OK property={} part={part_name}: case passes", def.id);
                            crate::scratch::cleanup();
                            std::process::exit(0);
                        },
                        Err(f) => {
                            println!("REPLAY-FAIL sig={} :: {}", f.sig, f.msg);
                            println!("VIOLATION property={} replay={}", def.id, args[1]);
                            crate::scratch::cleanup();
                            std::process::exit(1);
                        },
                    }
                }
            }
            eprintln!("nv: no part named {part_name:?}");
            std::process::exit(2);
        },
        "check" => {},
        _ => usage(&id_lc),
    }

    let mut tier = match std::env::var("VERIF_TIER").as_deref() {
        Ok("thorough") => Tier::Thorough,
        _ => Tier::Quick,
    };
    let mut seed: u64 = std::env::var("VERIF_SEED").ok().and_then(|s| s.trim().parse::<i128>().ok()).map(|v| v as u64).unwrap_or(0);
    let mut jobs: usize = std::env::var("NV_JOBS")
        .ok()
        .and_then(|s| s.parse().ok())
        .unwrap_or_else(|| std::thread::available_parallelism().map(|n| n.get()).unwrap_or(4));
    let mut only: Option<String> = None;
    let mut tier_explicit = false;
    let mut i = 1;
    while i < args.len() {
        match args[i].as_str() {
            "--tier" => {
                i += 1;
                tier = match args.get(i).map(|s| s.as_str()) {
                    Some("quick") => Tier::Quick,
                    Some("thorough") => Tier::Thorough,
                    _ => usage(&id_lc),
                };
                tier_explicit = true;
            },
            "--seed" => {
                i += 1;
                seed = args.get(i).and_then(|s| s.parse().ok()).unwrap_or_else(|| usage(&id_lc));
            },
            "--jobs" => {
                i += 1;
                jobs = args.get(i).and_then(|s| s.parse().ok()).unwrap_or_else(|| usage(&id_lc));
            },
            "--only" => {
                i += 1;
                only = args.get(i).cloned();
            },
            _ => usage(&id_lc),
        }
        i += 1;
    }
    let _ = tier_explicit;
    let scale_pct = std::env::var("NV_SCALE").ok().and_then(|s| s.parse().ok()).unwrap_or(100u64);
    let cfg = RunCfg { id: def.id, tier, seed, jobs: jobs.max(1), scale_pct };
    let findings = Findings::load(def.id);
    install_quiet_panic_hook();
    crate::sched::install();

    // watchdog: a hang is "inconclusive" (exit 2), never a violation
    let limit_s: u64 = std::env::var("NV_WATCHDOG_S")
        .ok()
        .and_then(|s| s.parse().ok())
        .unwrap_or_else(|| tier.pick(1500, 6 * 3600));
    let id = def.id;
    std::thread::spawn(move || {
        std::thread::sleep(std::time::Duration::from_secs(limit_s));
        println!("INCONCLUSIVE property={id}: watchdog after {limit_s}s");
        crate::scratch::cleanup();
        std::process::exit(2);
    });

    let t0 = Instant::now();
    let mut total = PartStats::default();
    let mut parts_json = serde_json::Map::new();
    let mut violations: Vec<Violation> = Vec::new();
    // replay tier: every saved case under replays/<ID>/ (shrunk failures of defects since
    // repaired, hand-kept regression cases) goes through the plain interpreter first; known
    // findings are tolerated as in the search itself
    if only.as_deref().map_or(true, |o| o == "saved") && std::env::var("NV_NO_SAVED").is_err() {
        let tp = Instant::now();
        let (pj, v) = replay_saved(&def, &findings);
        eprintln!(
            "nv {} part {:<14} evals={:<8} {:.1}s{}",
            def.id,
            "saved",
            pj["evaluations"].as_u64().unwrap_or(0),
            tp.elapsed().as_secs_f64(),
            if v.is_some() { "  ** VIOLATION" } else { "" }
        );
        total.evaluations += pj["evaluations"].as_u64().unwrap_or(0);
        parts_json.insert("saved".to_string(), pj);
        if let Some(v) = v {
            violations.push(v);
        }
    }
    let mut excluded_all: BTreeMap<String, u64> = BTreeMap::new();
    let mut all_exhaustive = true;
    for p in &def.parts {
        if let Some(o) = &only {
            if p.name() != o {
                continue;
            }
        }
        let tp = Instant::now();
        let mut st = PartStats::default();
        let v = p.run(&cfg, &findings, &mut st);
        let mut pj = json!({
            "evaluations": st.evaluations,
            "distinct_nontrivial": st.nontrivial.len(),
            "classes": st.labels,
            "excluded_known": st.excluded_known,
            "wall_s": tp.elapsed().as_secs_f64(),
        });
        for (k, val) in &st.extra {
            pj[k] = val.clone();
        }
        if st.exhaustive {
            pj["exhaustive"] = json!(true);
        } else {
            all_exhaustive = false;
        }
        eprintln!(
            "nv {} part {:<14} evals={:<8} nontrivial={:<7} {:.1}s{}",
            def.id,
            p.name(),
            st.evaluations,
            st.nontrivial.len(),
            tp.elapsed().as_secs_f64(),
            if v.is_some() { "  ** VIOLATION" } else { "" }
        );
        parts_json.insert(p.name().to_string(), pj);
        for (k, n) in &st.excluded_known {
            *excluded_all.entry(k.clone()).or_insert(0) += n;
        }
        // namespace nontrivial hashes per part before merging
        let salt = crate::fnv64(p.name().as_bytes());
        let mut st2 = PartStats { evaluations: st.evaluations, ..Default::default() };
        st2.nontrivial = st.nontrivial.iter().map(|h| h ^ salt).collect();
        for s in st.samples {
            if total.samples.len() < 5 {
                total.samples.push(json!({ "part": p.name(), "sample": s }));
            }
        }
        total.evaluations += st2.evaluations;
        total.nontrivial.extend(st2.nontrivial);
        if let Some(v) = v {
            violations.push(v);
        }
    }

    let wall = t0.elapsed().as_secs_f64();
    let mut known_lines = Vec::new();
    for (sig, n) in &excluded_all {
        let what = findings.known.get(sig).cloned().unwrap_or_default();
        known_lines.push(format!("KNOWN-FINDING: property={} sig={} hits={} {}", def.id, sig, n, what));
    }
    if total.samples.is_empty() {
        total.samples.push(json!("no non-trivial case was produced by this run"));
    }
    let mut coverage = json!({
        "evaluations": total.evaluations,
        "distinct_nontrivial": total.nontrivial.len(),
        "rule": def.rule,
        "samples": total.samples,
        "parts": Value::Object(parts_json),
        "excluded_known": excluded_all,
    });
    if all_exhaustive && only.is_none() {
        coverage["exhaustive"] = json!(true);
    }
    let ev = json!({
        "property_id": def.id,
        "tier": tier.name(),
        "seed": seed as i64,
        "level": def.level,
        "coverage": coverage,
        "assumptions": def.assumptions,
        "wall_s": wall,
        "violations": violations.len(),
        "violation_details": violations.iter().map(|v| json!({"part": v.part, "sig": v.sig, "msg": v.msg, "replay": v.replay})).collect::<Vec<_>>(),
        "known_findings_hit": known_lines,
    });
    let evdir = crate::root().join("evidence");
    let _ = std::fs::create_dir_all(&evdir);
    let evpath = evdir.join(format!("{}.json", def.id));
    if only.is_none() || std::env::var("NV_WRITE_EVIDENCE").is_ok() {
        if let Err(e) = std::fs::write(&evpath, serde_json::to_string_pretty(&ev).unwrap()) {
            eprintln!("nv: cannot write evidence {}: {e}", evpath.display());
        }
    }
    for l in &known_lines {
        println!("{l}");
    }
    crate::scratch::cleanup();
    if violations.is_empty() {
        println!(
            "OK property={} tier={} seed={} evaluations={} distinct_nontrivial={} wall_s={:.1}",
            def.id,
            tier.name(),
            seed,
            total.evaluations,
            total.nontrivial.len(),
            wall
        );
        std::process::exit(0);
    }
    for v in &violations {
        eprintln!("nv: violation in part {}: sig={} :: {}", v.part, v.sig, v.msg);
        println!("VIOLATION property={} replay={}", def.id, v.replay);
    }
    std::process::exit(1);
}
