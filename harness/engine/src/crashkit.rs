//! Crash injection helpers: byte-prefix copies of log files and child processes that die at a
//! chosen point.

use std::path::Path;
use std::process::{Command, Stdio};

/// Copy the first `len` bytes of `src` to `dst` (a crash that lost everything after `len`).
pub fn copy_prefix(src: &Path, dst: &Path, len: usize) -> std::io::Result<()> {
    let data = std::fs::read(src)?;
    let len = len.min(data.len());
    std::fs::write(dst, &data[..len])
}

/// Cut points between two offsets. `all` = every byte length in (from, to]; otherwise a stratified
/// sample: the ends, ±1 around them, and up to `interior` evenly spread interior points, plus every
/// extra boundary given (±1).
pub fn cut_points(from: usize, to: usize, all: bool, interior: usize, boundaries: &[usize]) -> Vec<usize> {
    let mut v: Vec<usize> = Vec::new();
    if to <= from {
        return vec![to];
    }
    if all {
        v.extend(from..=to);
        return v;
    }
    let mut push = |x: usize| {
        if x >= from && x <= to {
            v.push(x);
        }
    };
    push(from);
    push(from + 1);
    push(to);
    push(to.saturating_sub(1));
    for b in boundaries {
        push(*b);
        push(b + 1);
        push(b.saturating_sub(1));
        // inside the header of the record starting at b
        push(b + 4);
        push(b + 7);
        push(b + 8);
        push(b + 9);
    }
    let span = to - from;
    for k in 1..=interior {
        push(from + span * k / (interior + 1));
    }
    v.sort_unstable();
    v.dedup();
    v
}

pub struct ChildResult {
    pub code: Option<i32>,
    pub signal: Option<i32>,
    pub stdout: String,
    pub stderr: String,
}

/// Run `<current exe> child <name> <args…>` and wait for it.
pub fn run_child(name: &str, args: &[String], envs: &[(&str, String)]) -> std::io::Result<ChildResult> {
    use std::os::unix::process::ExitStatusExt;
    let exe = std::env::current_exe()?;
    let mut c = Command::new(exe);
    c.arg("child").arg(name).args(args).stdin(Stdio::null()).stdout(Stdio::piped()).stderr(Stdio::piped());
    for (k, v) in envs {
        c.env(k, v);
    }
    let out = c.output()?;
    Ok(ChildResult {
        code: out.status.code(),
        signal: out.status.signal(),
        stdout: String::from_utf8_lossy(&out.stdout).into_owned(),
        stderr: String::from_utf8_lossy(&out.stderr).into_owned(),
    })
}

/// In a child: limit the size of any file this process writes; exceeding it raises SIGXFSZ, whose
/// default action kills the process at exactly that byte.
pub fn set_file_size_limit(bytes: u64) {
    let lim = libc::rlimit { rlim_cur: bytes as libc::rlim_t, rlim_max: bytes as libc::rlim_t };
    // SAFETY: plain syscall wrapper with a valid pointer
    unsafe {
        libc::setrlimit(libc::RLIMIT_FSIZE, &lim);
        libc::signal(libc::SIGXFSZ, libc::SIG_DFL);
    }
}
