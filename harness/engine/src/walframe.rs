//! Independent reader for append-only logs framed as `[len u32 LE][crc32 u32 LE][payload]`.
//! Used as the oracle's view of "which records are wholly inside this prefix"; shares no code
//! with the product's replay functions.

#[derive(Debug, Clone, PartialEq, Eq)]
pub struct Frame {
    pub start: usize,
    /// offset one past the last payload byte
    pub end: usize,
    pub crc_ok: bool,
}

pub fn crc32(data: &[u8]) -> u32 {
    // bitwise CRC-32 (IEEE 802.3), table-free; logs are small
    let mut crc: u32 = 0xffff_ffff;
    for &b in data {
        crc ^= u32::from(b);
        for _ in 0..8 {
            let mask = (!(crc & 1)).wrapping_add(1);
            crc = (crc >> 1) ^ (0xedb8_8320 & mask);
        }
    }
    !crc
}

/// Parse complete frames from the start of `bytes`; stops at the first incomplete frame.
pub fn frames(bytes: &[u8]) -> Vec<Frame> {
    let mut out = Vec::new();
    let mut pos = 0usize;
    while pos + 8 <= bytes.len() {
        let len = u32::from_le_bytes(bytes[pos..pos + 4].try_into().unwrap()) as usize;
        let crc = u32::from_le_bytes(bytes[pos + 4..pos + 8].try_into().unwrap());
        let end = pos + 8 + len;
        if end > bytes.len() {
            break;
        }
        let ok = crc32(&bytes[pos + 8..end]) == crc;
        out.push(Frame { start: pos, end, crc_ok: ok });
        pos = end;
    }
    out
}

/// Offsets at which a record ends (record boundaries), including 0.
pub fn boundaries(bytes: &[u8]) -> Vec<usize> {
    let mut b = vec![0usize];
    for f in frames(bytes) {
        b.push(f.end);
    }
    b
}
