#![no_main]
// libFuzzer target "snapv3": arbitrary bytes through the C20 oracle of this decoder family
// (no panic, allocation bound, structural facts, re-encode -> decode fixed point).
use libfuzzer_sys::fuzz_target;

fuzz_target!(|data: &[u8]| {
    nv_c20::oracle::fuzz_entry("snapv3", data);
});
